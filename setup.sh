#!/bin/sh
# Builds the harness crate's dependencies once (offline) so that the first check does not pay for it.
set -e
cd "$(dirname "$0")"
mkdir -p .work evidence
cp /repo/Cargo.lock kani/Cargo.lock
cd kani
CARGO_NET_OFFLINE=true RUSTFLAGS="--cfg hlorenzi_customasm_verif" cargo kani -Z stubbing --only-codegen --target-dir ../.work/target --harness c02_a_iter_protocol >/dev/null 2>../.work/setup.log || { tail -40 ../.work/setup.log; exit 1; }
echo "setup ok"
