#!/usr/bin/env python3
"""Regenerates /verif/MANIFEST.json from tools/manifest_src.json + harnesses.toml."""
import json, os, tomllib
V = os.path.dirname(os.path.dirname(os.path.abspath(__file__)))
src = json.load(open(os.path.join(V, "tools", "manifest_src.json")))
cfg = tomllib.load(open(os.path.join(V, "harnesses.toml"), "rb"))
props = [json.loads(l)["id"] for l in open(os.path.join(V, "properties.jsonl"))]
claimed = src["claimed"]
checks = []
for pid in props:
    if pid not in claimed:
        continue
    c = claimed[pid]
    hs = [h for h in cfg["harness"] if h["property"] == pid or pid in h.get("also", [])]
    assert hs, pid
    obl = sorted({h.get("obligation", h["name"]) for h in hs})
    checks.append({
        "property_id": pid,
        "quick_cmd": "./check %s --tier quick" % pid,
        "thorough_cmd": "./check %s --tier thorough" % pid,
        "evidence_file": "evidence/%s.json" % pid,
        "replay_cmd_template": "./check %s --replay {path}" % pid,
        "engine": "kani-cbmc",
        "level_claimed": {
            "category": "model_checking",
            "text": c["text"] + " Obligations: " + "; ".join(obl) + ".",
            "design_ref": c.get("design_ref", "DESIGN.md section 5, " + pid),
        },
        "level_note": c["note"],
        "technique": c.get("technique", "bounded model checking of the real compiled functions (Kani/CBMC, SAT) with unwinding assertions"),
    })
na = [{"property_id": p, "reason": src["not_applicable"][p]} for p in props if p not in claimed]
for p in props:
    assert p in claimed or p in src["not_applicable"], p
m = {
    "version": 1,
    "setup_cmd": "./setup.sh",
    "hooks": {
        "guard": "hlorenzi_customasm_verif",
        "enable": "RUSTFLAGS='--cfg hlorenzi_customasm_verif' (set by ./check for cargo kani; the harness crate /verif/kani depends on /repo by path)",
        "baseline_off_cmd": "cd /repo && cargo test --workspace --no-fail-fast --offline",
        "source_commits": src["hook_commits"],
        "add_only": True,
    },
    "engines": [{
        "name": "kani-cbmc", "path": "/verif/check",
        "serves_properties": [c["property_id"] for c in checks],
        "kind_free_text": "Kani 0.68.0 harness crate /verif/kani (path dependency on /repo, goto programs regenerated on every run) decided by CBMC 6.11.0 + CaDiCaL with unwinding assertions and per-loop bound refinement; counterexamples replayed natively (cargo kani playback) where the harness has cost-only stubs",
    }],
    "checks": checks,
    "notes": src["notes"],
    "not_applicable": na,
}
json.dump(m, open(os.path.join(V, "MANIFEST.json"), "w"), indent=1)
print("claimed", len(checks), "n/a", len(na))
