#!/bin/sh
# confirm_seed.sh <ID> <k>: confirms a seeded change in its scratch worktree /tmp/mut/<ID>:
# the patch applies, the full test suite passes with it, the demonstration fails with it and passes without it.
id=$1; k=$2; wt=/tmp/mut/$id; out=/tmp/mut/$id.out
cd $wt || exit 9
git checkout -q -- . ; git clean -fdq -e target
git apply $out/patch$k.diff || { echo "$id/$k APPLY-FAILED"; exit 1; }
cargo build --offline >/dev/null 2>&1
t=$(cargo test --workspace --no-fail-fast --offline 2>&1 | grep -E "^test result:" | head -1)
sh $out/demo$k.sh $wt >/dev/null 2>&1; with=$?
git checkout -q -- . ; cargo build --offline >/dev/null 2>&1
sh $out/demo$k.sh $wt >/dev/null 2>&1; without=$?
echo "$id/$k tests=[$t] demo_with_patch=$with demo_without=$without"
