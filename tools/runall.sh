#!/bin/sh
# runs the quick (or $1) tier of every claimed property, one after the other
cd "$(dirname "$0")/.."
tier=${1:-quick}
for p in $(python3 -c "import json;print(' '.join(c['property_id'] for c in json.load(open('MANIFEST.json'))['checks']))"); do
  ./check $p --tier $tier > .work/last-$p.log 2>&1
  echo "$p exit=$? $(grep -E '^OK|^VIOLATION|^INCONCLUSIVE|^KNOWN' .work/last-$p.log | head -3 | tr '\n' ' ')"
done
