#!/bin/sh
# run_seed.sh <dir-with-patch.diff> <PROP> [<PROP>...]  (SEED_ONLY=<harness name fragment> restricts the run): applies a seeded change to /repo, runs the quick
# checks of the named properties, and undoes the change straight afterwards.
d=$1; shift
cd /repo || exit 9
if [ -n "$(git status --porcelain)" ]; then echo "/repo is not clean"; exit 9; fi
git apply $d/patch.diff || { echo "patch does not apply"; exit 9; }
res=""
for p in "$@"; do
  (cd /verif && ./check $p --tier ${SEED_TIER:-quick} ${SEED_ONLY:+--only $SEED_ONLY} > $d/check-$p.log 2>&1); rc=$?
  line=$(grep -E "^VIOLATION|^INCONCLUSIVE|^OK" $d/check-$p.log | head -2 | tr '\n' ' ')
  res="$res $p${SEED_ONLY:+[only=$SEED_ONLY]}:exit=$rc"
  echo "  $p exit=$rc $line"
done
git -C /repo checkout -- .
echo "$(basename $d)$res" >> /verif/seeded/results.txt
