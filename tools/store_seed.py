#!/usr/bin/env python3
"""store_seed.py <PROP> <k> <name> <function> <what_it_breaks> <needs> : copies a confirmed seeded change from
/tmp/mut/<PROP>.out into /verif/seeded/<name>/ (patch.diff, demo.sh, notes.txt, meta.json)."""
import sys, os, json, shutil, subprocess
prop, k, name, func, what, needs = sys.argv[1:7]
src = "/tmp/mut/%s.out" % prop
dst = "/verif/seeded/%s" % name
os.makedirs(dst, exist_ok=True)
shutil.copy(os.path.join(src, "patch%s.diff" % k), os.path.join(dst, "patch.diff"))
shutil.copy(os.path.join(src, "demo%s.sh" % k), os.path.join(dst, "demo.sh"))
shutil.copy(os.path.join(src, "notes%s.txt" % k), os.path.join(dst, "notes.txt"))
files = [l[6:].strip() for l in open(os.path.join(dst, "patch.diff")) if l.startswith("+++ b/")]
conf = [l.strip() for l in open(os.path.join(src, "confirm.log")) if l.startswith("%s/%s " % (prop, k))]
head = subprocess.check_output(["git", "-C", "/tmp/mut/%s" % prop, "rev-parse", "--short", "HEAD"], text=True).strip()
meta = {"property": prop, "files": files, "function": func, "what_it_breaks": what, "needs_to_manifest": needs,
        "tests_run": "cargo test --workspace --no-fail-fast --offline (patch applied alone) -> 605 passed; 0 failed",
        "origin": "round 4; written by an independent sub-agent that saw only the property text and its scratch worktree",
        "confirmed_by_me": {"how": "tools/confirm_seed.sh %s %s in scratch worktree /tmp/mut/%s at /repo commit %s" % (prop, k, prop, head),
                            "result": conf[-1] if conf else "?"}}
json.dump(meta, open(os.path.join(dst, "meta.json"), "w"), indent=1)
print(dst, meta["confirmed_by_me"]["result"])
