// driver.rs (included by path, exactly as /repo/src/main.rs does) reads these
// compile-time variables, which /repo's own build script would provide.
fn main() {
    println!("cargo:rustc-env=VERGEN_SEMVER_LIGHTWEIGHT=UNKNOWN");
    println!("cargo:rustc-env=VERGEN_COMMIT_DATE=UNKNOWN");
    println!("cargo:rustc-env=VERGEN_TARGET_TRIPLE=verif");
}
