//! C09 - the iteration budget decides whether a program assembles, never to what.
use crate::model::*;
use customasm::util::BigInt;
use customasm::*;

// Abstract pass oracle: the assembler state is a number 0..NS. A guessing pass from state s
// leads to O.f[s] and reports Resolved iff O.r[s]; a no-guess pass from s leaves the state where
// it is if it reports Resolved (O.g[s]) and otherwise fails (Unresolved or Err - the driver
// loop treats both as failure of the run).
// Item facts assumed of every real pass function (and checked per item in C02-b/C09-b):
//   A1: O.r[s]  => O.f[s] == s      (Resolved means nothing changed in that pass)
//   A2: O.g[s]  => O.f[s] == s      (a state a no-guess pass accepts is a fixed point of guessing)
//   A3: a no-guess pass that is not Resolved fails and its state is never delivered
const NS: usize = 5;
struct Oracle { magic: u64, f: [usize; NS], r: [bool; NS], g: [bool; NS], state: usize, passes: usize }
static mut O: Oracle = Oracle { magic: 0x4f52_5eed_c0de_0007, f: [0; NS], r: [false; NS], g: [false; NS], state: 0, passes: 0 };

pub fn resolve_once_oracle(
    report: &mut diagn::Report, _opts: &asm::AssemblyOptions, _fs: &mut dyn util::FileServer,
    _ast: &asm::AstTopLevel, _decls: &asm::ItemDecls, _defs: &mut asm::ItemDefs,
    _iteration_index: usize, _is_first_iteration: bool, is_last_iteration: bool,
) -> Result<asm::ResolutionState, ()> {
    unsafe {
        O.passes += 1;
        let s = O.state;
        if is_last_iteration {
            if O.g[s] {
                Ok(asm::ResolutionState::Resolved)
            } else {
                report.error("did not converge");
                Ok(asm::ResolutionState::Unresolved)
            }
        } else {
            O.state = O.f[s];
            if O.r[s] { Ok(asm::ResolutionState::Resolved) } else { Ok(asm::ResolutionState::Unresolved) }
        }
    }
}

fn run(budget: usize) -> (Result<usize, ()>, usize, usize) {
    reset_report_model();
    unsafe { O.state = 0; O.passes = 0; }
    let mut report = diagn::Report::new();
    let opts = asm::AssemblyOptions::new();
    let mut fs = NoFs;
    let ast = asm::AstTopLevel { nodes: Vec::new() };
    let decls = empty_decls();
    let mut defs = asm::defs::init();
    let r = asm::resolver::resolve_iteratively(&mut report, &opts, &mut fs, &ast, &decls, &mut defs, budget);
    std::mem::forget(decls); std::mem::forget(defs); std::mem::forget(report); std::mem::forget(ast);
    unsafe { (r, O.state, O.passes) }
}

fn budget_monotone(max_budget: usize) {
        unsafe {
            let mut s = 0;
            while s < NS {
                let f: usize = kani::any();
                kani::assume(f < NS);
                O.f[s] = f;
                O.r[s] = kani::any();
                O.g[s] = kani::any();
                kani::assume(!O.r[s] || f == s); // A1
                kani::assume(!O.g[s] || f == s); // A2
                s += 1;
            }
        }
        let n: usize = kani::any();
        let m: usize = kani::any();
        kani::assume(1 <= n && n < m && m <= max_budget);
        let (r1, s1, p1) = run(n);
        let (r2, s2, p2) = run(m);
        if let Ok(k1) = r1 {
            assert!(k1 <= n, "reported passes exceed the budget");
            match r2 {
                Ok(k2) => {
                    assert!(s2 == s1, "a larger budget assembles to a different result");
                    assert!(k2 <= m, "reported passes exceed the larger budget");
                    kani::cover!(k1 == n && k2 == k1, "converged exactly on the smaller budget's last pass");
                    kani::cover!(k1 < n, "converged early under both budgets");
                }
                Err(()) => assert!(false, "a larger budget turns success into failure"),
            }
        } else {
            kani::cover!(r2.is_ok(), "only the larger budget suffices");
            kani::cover!(r2.is_err(), "neither budget suffices");
        }
        let _ = (p1, p2, s2);
    }

modelled! {
    #[kani::unwind(9)]
    #[kani::stub(customasm::asm::resolver::resolve_once, resolve_once_oracle)]
    fn c09_a_budget_monotone() { budget_monotone(7) }
}
modelled! {
    #[kani::unwind(15)]
    #[kani::stub(customasm::asm::resolver::resolve_once, resolve_once_oracle)]
    fn c09_a_budget_monotone12() { budget_monotone(12) }
}
