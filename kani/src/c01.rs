//! C01 - assembled bits equal the language definition (kernels).
use crate::model::*;
use crate::steps::*;
use customasm::util::BigInt;
use customasm::*;

step! { int;
    #[kani::unwind(2)]
    fn c01_b_data_element_final() {
        // final pass, unsized value: accept <=> -2^(N-1) <= v < 2^N, stored = low N bits
        let n: usize = kani::any(); kani::assume(n >= 1 && n <= 16);
        let v: i32 = kani::any(); kani::assume(v >= -(1 << 17) - 4 && v <= (1 << 17) + 4);
        let prev: i32 = kani::any(); kani::assume(prev >= 0 && (prev as i64) < (1i64 << n));
        pre_int(v as i64, None);
        let (res, _, _) = data_element_step(n, v as i64, None, 0, false, true, false, true, prev as i64);
        kani::cover!(res && v < 0, "negative value stored unchanged on the final pass");
        kani::cover!(res && v > 0 && (v as i64) == (1i64 << n) - 1, "largest unsigned value stored");
        kani::cover!(!res, "final pass not resolved");
    }
}

// ---------------------------------------------------------------- C01-e emission order

modelled_bits! {
    #[kani::unwind(2)]
    fn c01_e_write_bigint() {
        // write_bigint(index, v of size n): output bit index+i = bit (n-1-i) of v; nothing else written
        reset_bitstore();
        let n: usize = kani::any();
        kani::assume(n <= 16);
        let index: usize = kani::any();
        kani::assume(index <= 40);
        let v: i32 = kani::any();
        let old_len: usize = kani::any();
        kani::assume(old_len <= 64);
        let mut bv = util::BitVec::new();
        if old_len > 0 { bv.write_bit(old_len - 1, false); }
        let val = BigInt::new(v as i64, Some(n));
        bv.write_bigint(index, &val);
        let want_len = if index + n > old_len { index + n } else { old_len };
        assert!(bv.len() == want_len, "length after a write is not max(old length, index + size)");
        let i: usize = kani::any();
        kani::assume(i < 64);
        let want = if i >= index && i < index + n { ((v as i64) >> (n - 1 - (i - index))) & 1 == 1 } else { false };
        assert!(dst_bit(i) == want, "emitted bit differs from the value's bit (most significant first) or a bit outside the item was written");
        kani::cover!(n == 16 && index == 3, "16-bit item at an unaligned position");
        kani::cover!(n == 0, "empty item");
        kani::cover!(v < 0 && n == 5, "negative value emitted as two's complement");
        std::mem::forget(bv); std::mem::forget(val);
    }
}

// ---------------------------------------------------------------- C01-d address bookkeeping

/// Walks [data(2 elems), label] / [res, label] / [instruction, label]: the context handed to the
/// label has cur_position = sum of the stored sizes of what precedes it.
modelled! {
    #[kani::unwind(4)]
    fn c01_d_position_bookkeeping() {
        reset_report_model();
        let mut report = diagn::Report::new();
        let mut decls = empty_decls();
        let sym = decls.symbols.verif_push_decl("l", 0, util::SymbolContext::new_global());
        let mut defs = asm::defs::init();
        defs.bankdefs.define(util::ItemRef::new(0), bank(0, 8, 0, None, Some(0), false));
        let (s0, s1, s2, s3): (usize, usize, usize, usize) = (kani::any(), kani::any(), kani::any(), kani::any());
        kani::assume(s0 < (1 << 20) && s1 < (1 << 20) && s2 < (1 << 40) && s3 < (1 << 20));
        defs.data_elems.define(util::ItemRef::new(0), asm::DataElement { item_ref: util::ItemRef::new(0), position_within_bank: None, encoding_statically_known: true, encoding: BigInt::new(0, Some(s0)), resolved: false });
        defs.data_elems.define(util::ItemRef::new(1), asm::DataElement { item_ref: util::ItemRef::new(1), position_within_bank: None, encoding_statically_known: true, encoding: BigInt::new(0, Some(s1)), resolved: false });
        defs.res_directives.define(util::ItemRef::new(0), asm::ResDirective { item_ref: util::ItemRef::new(0), reserve_size: s2 });
        defs.instructions.define(util::ItemRef::new(0), asm::Instruction { item_ref: util::ItemRef::new(0), matches: asm::InstructionMatches::new(), encoding_statically_known: false, encoding: BigInt::new(0, Some(s3)), resolved: false });
        let lit = || expr::Expr::Literal(sp(), expr::Value::Bool(false));
        let ast = asm::AstTopLevel { nodes: vec![
            asm::AstAny::DirectiveData(asm::AstDirectiveData { header_span: sp(), elem_size: None, elems: vec![lit(), lit()], item_refs: vec![util::ItemRef::new(0), util::ItemRef::new(1)] }),
            asm::AstAny::DirectiveRes(asm::AstDirectiveRes { header_span: sp(), expr: lit(), item_ref: Some(util::ItemRef::new(0)) }),
            asm::AstAny::Instruction(asm::AstInstruction { span: sp(), src: String::from("i"), item_ref: Some(util::ItemRef::new(0)) }),
            asm::AstAny::Symbol(asm::AstSymbol { decl_span: sp(), hierarchy_level: 0, name: String::from("l"), kind: asm::AstSymbolKind::Label, no_emit: false, item_ref: Some(sym) }),
        ] };
        let mut it = asm::ResolveIterator::new(&ast, &defs, false, false);
        let want = [0, s0, s0 + s1, s0 + s1 + s2, s0 + s1 + s2 + s3];
        let mut k = 0;
        while k < 5 {
            match it.next(&mut report, &decls, &defs) {
                Ok(Some(ctx)) => {
                    assert!(ctx.bank_data.cur_position == want[k], "position of an item is not the sum of the sizes before it");
                    if k == 4 { assert!(matches!(ctx.node, asm::ResolverNode::Symbol(_))); kani::cover!(s2 > 0 && s3 > 0, "label after data, reservation and instruction"); }
                    std::mem::forget(ctx);
                }
                _ => assert!(false, "iterator ended early"),
            }
            k += 1;
        }
        std::mem::forget(it); std::mem::forget(decls); std::mem::forget(defs); std::mem::forget(report); std::mem::forget(ast);
    }
}

// ---------------------------------------------------------------- C01-c address of a position

/// The address a label, `$` or an instruction gets at bank position `pos`:
/// start + pos / unit; a position inside an address unit is an error unless guessing is allowed.
fn address_of_position<const UNIT: usize>() {
    reset_report_model();
    let mut report = diagn::Report::new();
    let mut defs = asm::defs::init();
    let start: i32 = kani::any();
    let pos: usize = kani::any();
    kani::assume(pos < (1usize << 40));
    let outp: Option<usize> = if kani::any() { let o: usize = kani::any(); kani::assume(o < (1usize << 40)); Some(o) } else { None };
    let can_guess: bool = kani::any();
    defs.bankdefs.define(util::ItemRef::new(0), bank(0, UNIT, start as i64, None, outp, false));
    let bd = asm::resolver::BankData { cur_position: pos };
    let ctx = rctx(&bd, 0, false, !can_guess);
    let want = start as i64 + (pos / UNIT) as i64;
    let aligned = pos % UNIT == 0;
    // eval_address (labels, `$`)
    let r = ctx.eval_address(&mut report, sp(), &defs, can_guess);
    match r {
        Ok(ref a) => {
            assert!(aligned || can_guess, "address of a position inside an address unit accepted without guessing");
            assert!(a.maybe_into::<i64>() == Some(want), "address is not start + position / unit");
            assert!(msgs(&report) == 0);
        }
        Err(()) => {
            assert!(!aligned && !can_guess, "aligned position rejected");
            assert!(errs(&report) > 0, "Err without an error diagnostic");
        }
    }
    // get_address (output spans, instructions)
    let before = msgs(&report);
    let g = ctx.get_address(&mut report, sp(), &defs, can_guess);
    match g {
        Ok(Some(ref a)) => { assert!(aligned || can_guess); assert!(a.maybe_into::<i64>() == Some(want), "get_address differs from eval_address"); }
        Ok(None) => assert!(!aligned && !can_guess),
        Err(()) => assert!(false, "get_address failed"),
    }
    assert!(msgs(&report) == before);
    // output position = outp + position
    assert!(ctx.get_output_position(&defs) == outp.map(|o| o + pos), "output position is not outp + bank position");
    kani::cover!(r.is_ok() && !aligned, "guessed address inside a unit");
    kani::cover!(r.is_err(), "misaligned position rejected");
    kani::cover!(r.is_ok() && pos > 1000 && start < 0, "negative bank start");
    std::mem::forget(r); std::mem::forget(g); std::mem::forget(defs); std::mem::forget(report);
}
modelled! {
    #[kani::unwind(2)]
    #[kani::stub(customasm::util::BigInt::checked_add, crate::model::st_add)]
    fn c01_c_address_unit8() { address_of_position::<8>() }
}
modelled! {
    #[kani::unwind(2)]
    #[kani::stub(customasm::util::BigInt::checked_add, crate::model::st_add)]
    fn c01_c_address_unit3() { address_of_position::<3>() }
}
modelled! {
    #[kani::unwind(2)]
    #[kani::stub(customasm::util::BigInt::checked_add, crate::model::st_add)]
    fn c01_c_address_unit16() { address_of_position::<16>() }
}
