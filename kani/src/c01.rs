//! C01 - assembled bits equal the language definition (kernels).
use crate::model::*;
use crate::steps::*;
use customasm::util::BigInt;
use customasm::*;

step! { int;
    #[kani::unwind(2)]
    fn c01_b_data_element_final() {
        // final pass, unsized value: accept <=> -2^(N-1) <= v < 2^N, stored = low N bits
        let n: usize = kani::any(); kani::assume(n >= 1 && n <= 12);
        let v: i16 = kani::any();
        let prev: i16 = kani::any(); kani::assume(prev >= 0 && (prev as i64) < (1i64 << n));
        pre_int(v as i64, None);
        let (res, _, _) = data_element_step(n, v as i64, None, 0, false, true, false, true, prev as i64);
        kani::cover!(res && v < 0, "negative value stored unchanged on the final pass");
        kani::cover!(res && v > 0 && (v as i64) == (1i64 << n) - 1, "largest unsigned value stored");
        kani::cover!(!res, "final pass not resolved");
    }
}
