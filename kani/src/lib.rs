#![recursion_limit = "2048"]
#![allow(unused)]
//! Kani harness crate over the real customasm crate (path dependency on /repo).
pub use customasm::*;
/// The command-line driver is not part of the library target; it is included by
/// path exactly as /repo/src/main.rs does (`pub mod driver;` next to `use customasm::*`).
#[path = "/repo/src/driver.rs"]
pub mod driver;

#[cfg(kani)]
#[macro_use]
pub mod model;
#[cfg(kani)]
pub mod sym;
#[cfg(kani)]
#[macro_use]
mod steps;

#[cfg(kani)]
mod c01;
#[cfg(kani)]
mod c02;
#[cfg(kani)]
mod c03;
#[cfg(kani)]
mod c04;
#[cfg(kani)]
mod c05;
#[cfg(kani)]
mod c06;
#[cfg(kani)]
mod c09;
#[cfg(kani)]
mod c11;
#[cfg(kani)]
mod c13;
#[cfg(kani)]
mod c19;
