//! C11 - every output format carries exactly the assembled bits (raw formats + empty output).
use crate::model::*;
use customasm::util::BigInt;
use customasm::*;

/// A BitVec of `n` bits whose bit i is bit (31 - i) of `content` (BitStore model: the
/// vector's backing integer owns the destination array).
fn fill(bv: &mut util::BitVec, n: usize, content: u64, max: usize) {
    let mut i = 0;
    while i < max {
        if i < n {
            bv.write_bit(i, (content >> (63 - i)) & 1 == 1);
        }
        i += 1;
    }
}
fn bit(content: u64, n: usize, i: usize) -> bool {
    i < n && (content >> (63 - i)) & 1 == 1
}

modelled_bits! {
    #[kani::unwind(43)]
    fn c11_a_binary() {
        reset_bitstore();
        let n: usize = kani::any();
        kani::assume(n <= 40);
        let content: u64 = kani::any();
        let mut bv = util::BitVec::new();
        fill(&mut bv, n, content, 40);
        read_dst(true);
        assert!(bv.len() == n);
        let out = bv.format_binary();
        assert!(out.len() == (n + 7) / 8, "binary output is not ceil(bits / 8) bytes long");
        kani::cover!(n == 13 && out.len() == 2, "non byte-multiple length padded");
        kani::cover!(n == 0, "empty output");
        kani::cover!(n == 40 && out[4] == 0xa5, "five full bytes");
        let i: usize = kani::any();
        kani::assume(i < out.len() * 8);
        let got = (out[i / 8] >> (7 - (i % 8))) & 1 == 1;
        assert!(got == bit(content, n, i), "binary output bit differs from the assembled bit (or padding is not zero)");
        std::mem::forget(bv); std::mem::forget(out);
    }
}

modelled_bits! {
    #[kani::unwind(43)]
    #[kani::stub(alloc::string::String::push, crate::model::st_string_push_ascii)]
    fn c11_a_binstr() {
        reset_bitstore();
        let n: usize = kani::any();
        kani::assume(n <= 40);
        let content: u64 = kani::any();
        let mut bv = util::BitVec::new();
        fill(&mut bv, n, content, 40);
        read_dst(true);
        let s = bv.format_binstr();
        assert!(s.len() == n, "bit string is not one digit per bit");
        let i: usize = kani::any();
        kani::assume(i < n);
        assert!(s.as_bytes()[i] == if bit(content, n, i) { b'1' } else { b'0' }, "bit string digit differs from the assembled bit");
        kani::cover!(n == 40 && i == 39, "last of 40 digits");
        kani::cover!(n == 1 && s.as_bytes()[0] == b'1');
        std::mem::forget(bv); std::mem::forget(s);
    }
}

modelled_bits! {
    #[kani::unwind(43)]
    #[kani::stub(alloc::string::String::push, crate::model::st_string_push_ascii)]
    fn c11_a_hexstr() {
        reset_bitstore();
        let n: usize = kani::any();
        kani::assume(n <= 40);
        let content: u64 = kani::any();
        let mut bv = util::BitVec::new();
        fill(&mut bv, n, content, 40);
        read_dst(true);
        let s = bv.format_hexstr();
        assert!(s.len() == (n + 3) / 4, "hex string is not ceil(bits / 4) digits long");
        let d: usize = kani::any();
        kani::assume(d < s.len());
        let mut want: u8 = 0;
        let mut k = 0;
        while k < 4 {
            want = (want << 1) | (bit(content, n, d * 4 + k) as u8);
            k += 1;
        }
        let c = s.as_bytes()[d];
        let got = if c >= b'0' && c <= b'9' { c - b'0' } else if c >= b'a' && c <= b'f' { c - b'a' + 10 } else { 255 };
        assert!(got == want, "hex digit differs from the assembled bits (or padding is not zero)");
        kani::cover!(n == 38 && s.len() == 10, "non nibble-multiple length padded");
        kani::cover!(got >= 10, "letter digit");
        std::mem::forget(bv); std::mem::forget(s);
    }
}

/// C11-b: every formatter on an empty output: no panic, well-formed (possibly empty) payload.
macro_rules! empty_fmt {
    ($name:ident, $call:expr, $check:expr) => {
        modelled_bits! {
            #[kani::unwind(3)]
            fn $name() {
                reset_bitstore();
                let bv = util::BitVec::new();
                read_dst(true);
                let out = ($call)(&bv);
                assert!(($check)(&out), "empty output formatted into a non-empty payload");
                kani::cover!(true, "formatter returns on empty output");
                std::mem::forget(bv); std::mem::forget(out);
            }
        }
    };
}
empty_fmt!(c11_b_empty_binary, |b: &util::BitVec| b.format_binary(), |o: &Vec<u8>| o.is_empty());
empty_fmt!(c11_b_empty_binstr, |b: &util::BitVec| b.format_binstr(), |o: &String| o.is_empty());
empty_fmt!(c11_b_empty_hexstr, |b: &util::BitVec| b.format_hexstr(), |o: &String| o.is_empty());
empty_fmt!(c11_b_empty_mif, |b: &util::BitVec| b.format_mif(), |o: &String| o.ends_with("END;"));
empty_fmt!(c11_b_empty_intelhex, |b: &util::BitVec| b.format_intelhex(8), |o: &String| o.as_str() == ":00000001FF");
empty_fmt!(c11_b_empty_deccomma, |b: &util::BitVec| b.format_separator(10, ", "), |o: &String| o.is_empty());
empty_fmt!(c11_b_empty_hexspace, |b: &util::BitVec| b.format_separator(16, " "), |o: &String| o.is_empty());
empty_fmt!(c11_b_empty_c_dec, |b: &util::BitVec| b.format_c_array(10), |o: &String| o.ends_with("};"));
empty_fmt!(c11_b_empty_c_hex, |b: &util::BitVec| b.format_c_array(16), |o: &String| o.ends_with("};"));
empty_fmt!(c11_b_empty_logisim8, |b: &util::BitVec| b.format_logisim(8), |o: &String| o.as_str() == "v2.0 raw\n");
empty_fmt!(c11_b_empty_logisim16, |b: &util::BitVec| b.format_logisim(16), |o: &String| o.as_str() == "v2.0 raw\n");
empty_fmt!(c11_b_empty_bindump, |b: &util::BitVec| b.format_bindump(), |o: &String| true);
empty_fmt!(c11_b_empty_hexdump, |b: &util::BitVec| b.format_hexdump(), |o: &String| true);
