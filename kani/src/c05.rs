//! C05 - expressions: customasm's own bit kernels around num-bigint.
use crate::model::*;
use customasm::util::BigInt;
use customasm::*;

modelled_bits! {
    #[kani::unwind(2)]
    fn c05_a_slice() {
        // slice(l, r): size l-r, bit i = bit (r+i) of the infinite two's-complement value
        reset_bitstore();
        let v: i32 = kani::any();
        let vs: Option<usize> = if kani::any() { let s: usize = kani::any(); kani::assume(s <= 24); Some(s) } else { None };
        let (l, r): (usize, usize) = (kani::any(), kani::any());
        kani::assume(r <= l && l <= 24);
        let x = BigInt::new(v as i64, vs);
        let y = x.slice(l, r);
        assert!(y.size == Some(l - r), "slice size is not left - right");
        let shortcut = v >= 0 && vs == Some(l) && r == 0; // customasm returns the value itself
        let i: usize = kani::any();
        kani::assume(i < 24);
        let want = i < l - r && (((v as i64) >> (r + i)) & 1 == 1);
        let got = if shortcut { i < 63 && ((y.maybe_into::<i64>().unwrap() >> i) & 1 == 1) } else { dst_bit(i) };
        if i < l - r || !shortcut {
            assert!(got == want, "slice bit differs from the value's bit");
        }
        if shortcut { assert!(y.maybe_into::<i64>() == Some(v as i64)); }
        kani::cover!(v < 0 && l == 24 && r == 17, "high bits of a negative value");
        kani::cover!(shortcut && l > 0, "full-width shortcut");
        kani::cover!(l == r, "empty slice");
        std::mem::forget(x); std::mem::forget(y);
    }
}

modelled_bits! {
    #[kani::unwind(2)]
    fn c05_a_checked_slice_bounds() {
        reset_report_model();
        reset_bitstore();
        let mut report = diagn::Report::new();
        let (l, r): (usize, usize) = (kani::any(), kani::any());
        kani::assume(l <= 24 && r <= 24);
        let x = BigInt::new(kani::any::<i16>() as i64, None);
        let y = x.checked_slice(&mut report, sp(), l, r);
        assert!(y.is_ok() == (l >= r), "inverted slice bounds accepted, or valid bounds rejected");
        assert!(y.is_ok() == (errs(&report) == 0));
        kani::cover!(l < r, "inverted bounds");
        std::mem::forget(x); std::mem::forget(y); std::mem::forget(report);
    }
}

modelled_bits! {
    #[kani::unwind(2)]
    fn c05_a_concat() {
        // concat((a, al..ar), (b, bl..br)): sizes add, left bits above right bits
        reset_bitstore();
        let (a, b): (i16, i16) = (kani::any(), kani::any());
        let (al, ar, bl, br): (usize, usize, usize, usize) = (kani::any(), kani::any(), kani::any(), kani::any());
        kani::assume(ar <= al && al <= 16 && br <= bl && bl <= 16);
        let x = BigInt::new(a as i64, None);
        let y = BigInt::new(b as i64, None);
        let z = x.concat((al, ar), &y, (bl, br));
        let (ls, rs) = (al - ar, bl - br);
        assert!(z.size == Some(ls + rs), "concatenation size is not the sum of the sizes");
        let i: usize = kani::any();
        kani::assume(i < 32);
        let want = if i < rs { ((b as i64) >> (br + i)) & 1 == 1 } else if i < rs + ls { ((a as i64) >> (ar + i - rs)) & 1 == 1 } else { false };
        assert!(dst_bit(i) == want, "concatenation bit differs (left operand must occupy the high bits)");
        kani::cover!(ls == 16 && rs == 16, "two full 16-bit halves");
        kani::cover!(ls == 0 && rs > 0, "empty left operand");
        std::mem::forget(x); std::mem::forget(y); std::mem::forget(z);
    }
}

// ---------------------------------------------------------------- C05-d / C03-d string and number excerpts

use crate::sym::*;

static DIGITS: [char; 8] = ['0', '1', '9', 'a', 'f', 'x', 'b', '_'];

modelled! {
    #[kani::unwind(5)]
    fn c05_d_excerpt_as_usize() {
        // never panics on 1..2 chars from {0,1,9,a,f,x,b,_}; value = conventional reading
        reset_report_model();
        let ss = SymStr::<2>::from(&DIGITS);
        kani::assume(ss.n >= 1);
        let mut report = diagn::Report::new();
        let r = syntax::excerpt_as_usize(&mut report, sp(), ss.as_str());
        assert!(r.is_ok() == (errs(&report) == 0), "Err without a diagnostic or diagnostic with Ok");
        // specification
        let c = ss.cs;
        let (radix, start) = if ss.n >= 2 && c[0] == '0' && c[1] == 'x' { (16u32, 2) } else if ss.n >= 2 && c[0] == '0' && c[1] == 'b' { (2, 2) } else { (10, 0) };
        let mut val: usize = 0;
        let mut ok = true;
        let mut i = 0;
        while i < 2 {
            if i >= start && i < ss.n && c[i] != '_' {
                match c[i].to_digit(radix) { Some(d) => val = val * radix as usize + d as usize, None => ok = false }
            }
            i += 1;
        }
        match r {
            Ok(v) => { assert!(ok, "invalid digits accepted"); assert!(v == val, "number excerpt read to a different value"); }
            Err(()) => assert!(!ok, "valid number rejected"),
        }
        kani::cover!(ss.n == 2 && c[0] == '0' && c[1] == 'x' && r == Ok(0), "bare 0x prefix");
        kani::cover!(r == Ok(19), "decimal 19");
        kani::cover!(r.is_err(), "invalid digits");
        std::mem::forget(report);
    }
}

// ---------------------------------------------------------------- C05-e typing helpers: ill-typed operands are errors

modelled! {
    #[kani::unwind(2)]
    fn c05_e_value_typing_integer() {
        // an integer where a boolean is required is an error; a negative or oversized integer where a
        // machine-word count is required is an error; an unsized integer where a sized one is required is an error
        reset_report_model();
        let mut report = diagn::Report::new();
        let v: i64 = kani::any();
        let size: Option<usize> = if kani::any() { Some(kani::any()) } else { None };
        let val = expr::Value::make_integer(BigInt::new(v, size));
        let b = val.expect_bool(&mut report, sp());
        assert!(b.is_err() && errs(&report) == 1, "integer accepted as a boolean");
        let u = val.expect_usize(&mut report, sp());
        assert!(u.is_ok() == (v >= 0), "integer-to-count conversion accepts a negative value or rejects a non-negative one");
        if let Ok(x) = u { assert!(x as i64 == v, "count differs from the integer"); }
        let before = errs(&report);
        let nz = val.expect_nonzero_usize(&mut report, sp());
        assert!(nz.is_ok() == (v > 0), "non-zero count accepts zero or a negative value");
        assert!(nz.is_ok() == (errs(&report) == before), "Err without a diagnostic");
        let before = errs(&report);
        let sized = val.expect_sized_bigint(&mut report, sp()).is_ok();
        assert!(sized == size.is_some(), "unsized integer accepted where a sized one is required");
        assert!(sized == (errs(&report) == before), "Err without a diagnostic");
        kani::cover!(v == 0 && size.is_none(), "unsized zero");
        kani::cover!(v < 0 && size.is_some(), "sized negative value");
        std::mem::forget(val); std::mem::forget(report);
    }
}
modelled! {
    #[kani::unwind(2)]
    fn c05_e_value_typing_bool() {
        reset_report_model();
        let mut report = diagn::Report::new();
        let bv: bool = kani::any();
        let val = expr::Value::Bool(bv);
        assert!(val.expect_bool(&mut report, sp()) == Ok(bv) && errs(&report) == 0, "boolean not accepted as a boolean");
        assert!(val.expect_usize(&mut report, sp()).is_err() && errs(&report) == 1, "boolean accepted as an integer count");
        assert!(val.expect_bigint(&mut report, sp()).is_err() && errs(&report) == 2, "boolean accepted as an integer");
        assert!(val.expect_nonzero_usize(&mut report, sp()).is_err() && errs(&report) == 3, "boolean accepted as a non-zero count");
        kani::cover!(bv);
        std::mem::forget(val); std::mem::forget(report);
    }
}

modelled! {
    #[kani::unwind(16)]
    #[kani::stub(alloc::string::String::push, crate::model::st_string_push_ascii)]
    fn c05_d_string_two_unicode_escapes() {
        // "\u{4X}\u{4Y}": two characters U+004X, U+004Y (each escape starts afresh)
        reset_report_model();
        let hex = |k: u8| -> u8 { if k < 10 { b'0' + k } else { b'a' + (k - 10) } };
        let (x, y): (u8, u8) = (kani::any(), kani::any());
        kani::assume(x < 16 && y < 16);
        let mut buf = *b"\"\\u{40}\\u{40}\"";
        buf[5] = hex(x);
        buf[11] = hex(y);
        let text = unsafe { std::str::from_utf8_unchecked(&buf) };
        let mut report = diagn::Report::new();
        let r = syntax::excerpt_as_string_contents(&mut report, sp(), text);
        match r {
            Ok(ref s) => {
                assert!(s.len() == 2, "two one-byte characters expected");
                assert!(s.as_bytes()[0] == 0x40 + x && s.as_bytes()[1] == 0x40 + y, "escape decoded to a different character");
                assert!(errs(&report) == 0);
                kani::cover!(x == 1 && y == 2, "AB");
            }
            Err(()) => assert!(false, "valid escapes rejected"),
        }
        std::mem::forget(r); std::mem::forget(report);
    }
}
