//! C13 - diagnostics point at the fault.
use crate::model::*;
use crate::sym::*;
use customasm::*;

/// C13-a: line / column of a byte index (spans carry byte indices).
fn line_column<const N: usize>(ss: &SymStr<N>) {
    let s = ss.as_str();
    let idx: usize = kani::any();
    kani::assume(ss.is_boundary(idx));
    let counter = util::CharCounter::new(s);
    let (line, col) = counter.get_line_column_at_index(idx);
    // specification: newlines before idx, chars since the last one
    let mut want_line = 0;
    let mut want_col = 0;
    let mut i = 0;
    while i < N {
        if i < ss.n && ss.off[i] < idx {
            if ss.cs[i] == '\n' {
                want_line += 1;
                want_col = 0;
            } else {
                want_col += 1;
            }
        }
        i += 1;
    }
    assert!(line == want_line, "line of a byte index is wrong");
    assert!(col == want_col, "column of a byte index is wrong");
    kani::cover!(ss.len > ss.n && idx == ss.len && want_line == 1, "multi-byte char and a newline before the index");
    kani::cover!(want_col == 2 && ss.len >= 5, "column 2 after multi-byte chars");
    std::mem::forget(counter);
}

#[kani::proof]
#[kani::unwind(4)]
fn c13_a_line_column_any2() {
    line_column::<2>(&SymStr::<2>::any());
}

static WIDTHS: [char; 5] = ['\n', 'a', '\u{e9}', '\u{20ac}', '\u{1f600}'];

#[kani::proof]
#[kani::unwind(6)]
fn c13_a_line_column_w4() {
    line_column::<4>(&SymStr::<4>::from(&WIDTHS));
}

/// C13-b: the byte range of a line, composed with get_excerpt as report.rs does.
fn line_range<const N: usize>(ss: &SymStr<N>) {
    let s = ss.as_str();
    let line: usize = kani::any();
    kani::assume(line <= N + 1);
    let counter = util::CharCounter::new(s);
    let lines = counter.get_line_count();
    let (b, e) = counter.get_index_range_of_line(line);
    assert!(b <= e && e <= ss.len, "line range outside the text");
    assert!(ss.is_boundary(b) && ss.is_boundary(e), "line range not on character boundaries");
    let ex = counter.get_excerpt(b, e); // panics on the pinned tree for multi-byte text
    assert!(ex.len() == e - b);
    // specification over the construction arrays
    let mut total_nl = 0;
    let mut nl_before_b = 0;
    let mut inner_nl = false;
    let mut i = 0;
    while i < N {
        if i < ss.n && ss.cs[i] == '\n' {
            total_nl += 1;
            if ss.off[i] < b {
                nl_before_b += 1;
            }
            if ss.off[i] >= b && ss.off[i] + 1 < e {
                inner_nl = true;
            }
        }
        i += 1;
    }
    assert!(lines == total_nl + 1, "line count is not newlines + 1");
    if line < lines {
        assert!(nl_before_b == line, "range does not start at the requested line");
        assert!(b == 0 || ss.buf[b - 1] == b'\n', "range does not start at a line start");
    } else {
        assert!(b == ss.len && e == ss.len, "range of a line beyond the text is not empty");
    }
    assert!(!inner_nl, "a line excerpt contains an inner newline");
    assert!(e == ss.len || ss.buf[e - 1] == b'\n', "line excerpt stops before the end of the line");
    kani::cover!(line == 1 && lines == 2 && ss.len > ss.n, "second line of text with multi-byte chars");
    kani::cover!(line >= lines, "line beyond the text");
    std::mem::forget(counter);
}

#[kani::proof]
#[kani::unwind(4)]
fn c13_b_line_range_any2() {
    line_range::<2>(&SymStr::<2>::any());
}

#[kani::proof]
#[kani::unwind(5)]
fn c13_b_line_range_w3() {
    line_range::<3>(&SymStr::<3>::from(&WIDTHS));
}

/// C13-c: span algebra.
#[kani::proof]
#[kani::unwind(2)]
fn c13_c_span_algebra() {
    let (a0, a1, b0, b1): (usize, usize, usize, usize) = (kani::any(), kani::any(), kani::any(), kani::any());
    kani::assume(a0 <= a1 && b0 <= b1 && a1 < usize::MAX && b1 < usize::MAX);
    let f: usize = kani::any();
    let a = diagn::Span::new(f, a0, a1);
    let b = diagn::Span::new(f, b0, b1);
    let j = a.join(b);
    let (j0, j1) = j.location().unwrap();
    assert!(j0 == a0.min(b0) && j1 == a1.max(b1), "join is not the covering range");
    assert!(j.file_handle == f);
    let d = diagn::Span::new_dummy();
    assert!(a.join(d).location() == Some((a0, a1)) && d.join(a).location() == Some((a0, a1)), "dummy span is not neutral for join");
    assert!(d.join(d).location().is_none());
    assert!(a.before().location() == Some((a0, a0)) && a.after().location() == Some((a1, a1)));
    assert!(a.length() == a1 - a0 && d.length() == 0);
    kani::cover!(a1 < b0, "disjoint spans joined");
    kani::cover!(b0 < a0 && a1 < b1, "nested spans joined");
}

#[kani::proof]
#[kani::unwind(5)]
fn c13_a_line_column_any3() {
    line_column::<3>(&SymStr::<3>::any());
}

#[kani::proof]
#[kani::unwind(5)]
fn c13_b_line_range_any3() {
    line_range::<3>(&SymStr::<3>::any());
}
