//! C19 - resource limits are diagnosed, not crashed into (machine-word half).
//! Kani's own overflow, division-by-zero and index checks are the assertions.
use crate::model::*;
use crate::steps::*;
use customasm::util::BigInt;
use customasm::*;

// ---------------------------------------------------------------- C19-b bank definition fields

struct FieldQueue { magic: u64, q: [Option<expr::Value>; 4], i: usize }
static mut FQ: FieldQueue = FieldQueue { magic: 0x4651_5eed_c0de_0008, q: [None, None, None, None], i: 0 };
/// Contract stub for resolver::eval_certain: hands out the prepared field values in call order.
pub fn st_eval_certain_q(report: &mut diagn::Report, _decls: &asm::ItemDecls, _defs: &asm::ItemDefs, _e: &expr::Expr) -> Result<expr::Value, ()> {
    unsafe {
        let i = FQ.i;
        FQ.i += 1;
        if i < 4 {
            if let Some(v) = FQ.q[i].take() {
                return Ok(v);
            }
        }
        report.error("cannot resolve expression");
        Err(())
    }
}
fn lit() -> Option<expr::Expr> {
    Some(expr::Expr::Literal(sp(), expr::Value::Bool(false)))
}

modelled! {
    #[kani::unwind(2)]
    #[kani::stub(customasm::asm::resolver::eval::eval_certain, st_eval_certain_q)]
    fn c19_b_bankdef_fields() {
        reset_report_model();
        // the address unit ranges over representative magnitudes (multiplication by a symbolic
        // 64-bit factor is out of reach for the SAT back end), every other field over all of u64
        let bk: usize = kani::any();
        kani::assume(bk < 8);
        let bits: u64 = [0u64, 1, 3, 8, 16, 32, 1 << 33, u64::MAX][bk];
        let start: i32 = kani::any();
        let size: u64 = kani::any();
        let outp: u64 = kani::any();
        unsafe {
            FQ.q[0] = Some(expr::Value::make_integer(BigInt::new(bits, None)));
            FQ.q[1] = Some(expr::Value::make_integer(BigInt::new(size, None)));
            FQ.i = 0;
        }
        let node = asm::AstDirectiveBankdef {
            header_span: sp(), name_span: sp(), name: String::from("b"),
            addr_unit: lit(), label_align: None, addr_start: None, addr_end: None, addr_size: lit(),
            output_offset: None, fill: false, item_ref: Some(util::ItemRef::new(1)),
        };
        let mut ast = asm::AstTopLevel { nodes: vec![asm::AstAny::DirectiveBankdef(node)] };
        let mut report = diagn::Report::new();
        let mut decls = empty_decls();
        let mut defs = asm::defs::init();
        let mut opts = asm::AssemblyOptions::new();
        opts.optimize_instruction_matching = false;
        let r = asm::defs::define_remaining(&mut report, &opts, &mut ast, &mut defs, &mut decls);
        match r {
            Ok(()) => {
                assert!(msgs(&report) == 0);
                let b = defs.bankdefs.get(util::ItemRef::new(1));
                assert!(b.addr_unit as u64 == bits, "address unit is not the `bits` field");
                assert!(b.size.map(|s| s as u64) == size.checked_mul(bits) && b.size.is_some(), "bank size in bits is not size x bits");
                // every address computation in the bank divides by the address unit
                // (ResolverContext::get_address / eval_address: cur_position % addr_unit)
                assert!(b.addr_unit != 0, "address unit 0 accepted: the next label or instruction divides by it");
                kani::cover!(bits == 8, "byte-addressed bank defined");
                kani::cover!(bits == 1 && size > (1u64 << 32), "large bit-addressed bank");
                kani::cover!(bits == (1u64 << 33) && size > 1, "huge address unit accepted when size x bits fits");
            }
            Err(()) => {
                assert!(errs(&report) > 0, "Err without an error diagnostic");
                kani::cover!(bits == 0, "address unit 0 rejected");
                kani::cover!(bits > 1 && size > u64::MAX / 2, "size x bits beyond the machine word rejected");
            }
        }
        std::mem::forget(ast); std::mem::forget(decls); std::mem::forget(defs); std::mem::forget(report);
    }
}

// ---------------------------------------------------------------- C19-a layout arithmetic on item sizes

step! { int;
    #[kani::unwind(2)]
    fn c19_a_res_magnitude() {
        // #res count x address unit for every u32 count and every address unit
        let v: i64 = kani::any();
        let unit: usize = kani::any();
        kani::assume(unit >= 1);
        reset_report_model();
        pre_int(v, None);
        let mut report = diagn::Report::new();
        let decls = empty_decls();
        let mut defs = asm::defs::init();
        defs.bankdefs.define(util::ItemRef::new(0), bank(0, unit, 0, None, Some(0), false));
        defs.res_directives.define(util::ItemRef::new(0), asm::ResDirective { item_ref: util::ItemRef::new(0), reserve_size: 0 });
        let ast = asm::AstDirectiveRes { header_span: sp(), expr: expr::Expr::Literal(sp(), expr::Value::Bool(false)), item_ref: Some(util::ItemRef::new(0)) };
        let bd = asm::resolver::BankData { cur_position: 0 };
        let ctx = rctx(&bd, 0, false, kani::any());
        let opts = asm::AssemblyOptions::new();
        let mut fs = NoFs;
        let r = asm::resolver::verif_hooks::resolve_res(&mut report, &opts, &mut fs, &ast, &decls, &mut defs, &ctx);
        let stored = defs.res_directives.get(util::ItemRef::new(0)).reserve_size;
        match r {
            Ok(_) => {
                assert!(v >= 0 && (v as u128) * (unit as u128) == stored as u128, "reserved size wrapped around");
                kani::cover!(stored > (1usize << 40), "large reservation accepted");
            }
            Err(()) => {
                assert!(errs(&report) > 0, "Err without an error diagnostic");
                kani::cover!(v >= 0 && v <= u32::MAX as i64, "reservation whose size in bits exceeds the machine word rejected");
                kani::cover!(v < 0, "negative reservation rejected");
            }
        }
        std::mem::forget(decls); std::mem::forget(defs); std::mem::forget(report); std::mem::forget(ast);
    }
}

/// a - b for 0 <= b <= a < 2^64 (the only case advance_address asks for)
pub fn st_sub_u64(a: &BigInt, _r: &mut diagn::Report, _s: diagn::Span, b: &BigInt) -> Result<BigInt, ()> {
    match (a.maybe_into::<u64>(), b.maybe_into::<u64>()) {
        (Some(x), Some(y)) if x >= y => Ok(BigInt::new(x - y, None)),
        _ => {
            kani::assume(false);
            Err(())
        }
    }
}

modelled! {
    #[kani::unwind(5)]
    #[kani::stub(customasm::util::BigInt::checked_sub, st_sub_u64)]
    fn c19_a_addr_position() {
        // position after `#addr a` = (a - start) x unit, for every a < 2^64: no wrap-around, no panic
        reset_report_model();
        let a: u64 = kani::any();
        let start: u16 = kani::any();
        let k: usize = kani::any();
        kani::assume(k < 5);
        let unit = [1usize, 3, 8, 16, 32][k];
        let mut report = diagn::Report::new();
        let decls = empty_decls();
        let mut defs = asm::defs::init();
        defs.bankdefs.define(util::ItemRef::new(0), bank(0, unit, start as i64, None, Some(0), false));
        defs.addr_directives.define(util::ItemRef::new(0), asm::AddrDirective { item_ref: util::ItemRef::new(0), address: BigInt::new(a, None) });
        // ... followed by a data element of any size: position + size must not wrap either
        let dsize: usize = kani::any();
        defs.data_elems.define(util::ItemRef::new(0), asm::DataElement { item_ref: util::ItemRef::new(0), position_within_bank: None, encoding_statically_known: true, encoding: BigInt::new(0, Some(dsize)), resolved: true });
        let lit = || expr::Expr::Literal(sp(), expr::Value::Bool(false));
        let ast = asm::AstTopLevel { nodes: vec![
            asm::AstAny::DirectiveAddr(asm::AstDirectiveAddr { header_span: sp(), expr: lit(), item_ref: Some(util::ItemRef::new(0)) }),
            asm::AstAny::DirectiveData(asm::AstDirectiveData { header_span: sp(), elem_size: None, elems: vec![lit()], item_refs: vec![util::ItemRef::new(0)] }),
            asm::AstAny::DirectiveAssert(asm::AstDirectiveAssert { header_span: sp(), condition_expr: lit() }),
        ] };
        let mut it = asm::ResolveIterator::new(&ast, &defs, false, false);
        let c1 = it.next(&mut report, &decls, &defs);
        assert!(matches!(c1, Ok(Some(_))));
        std::mem::forget(c1);
        // the second step advances the position past the #addr directive, the third past the data element
        let c2 = it.next(&mut report, &decls, &defs);
        let pos_after_addr = match &c2 { Ok(Some(ctx)) => Some(ctx.bank_data.cur_position), _ => None };
        if let Some(p) = pos_after_addr {
            assert!(a < start as u64 || (a - start as u64) as u128 * unit as u128 >= (1u128 << 64) || p as u128 == (a - start as u64) as u128 * unit as u128, "position after #addr is not (a - start) x unit");
        }
        std::mem::forget(c2);
        let before = msgs(&report);
        let c3 = it.next(&mut report, &decls, &defs);
        // the third step delivers the #assert node: its position is exactly the data element's end, or the overflow is diagnosed
        let p3 = match &c3 { Ok(Some(ctx)) => Some(ctx.bank_data.cur_position), _ => None };
        assert!(p3.is_some() || (c3.is_err() && msgs(&report) > before), "position overflow neither exact nor diagnosed");
        if let (Some(p), Some(q)) = (pos_after_addr, p3) {
            assert!(q as u128 == p as u128 + dsize as u128, "position after the item is not position + size (clamped or wrapped)");
        }
        kani::cover!(c3.is_err(), "position + size beyond the machine word diagnosed");
        std::mem::forget(c3);
        kani::cover!(a > (1u64 << 62), "address whose bit position exceeds the machine word");
        kani::cover!(a >= start as u64 && a < 1000, "ordinary address");
        std::mem::forget(it); std::mem::forget(decls); std::mem::forget(defs); std::mem::forget(report); std::mem::forget(ast);
    }
}

// ---------------------------------------------------------------- C19-e / C17-a depth counters

modelled! {
    #[kani::unwind(30)]
    fn c19_e_eval_depth_limit() {
        reset_report_model();
        let mut report = diagn::Report::new();
        let k: usize = kani::any();
        kani::assume(k <= 27);
        let mut ctx = expr::EvalContext::new();
        let mut i = 0;
        while i < k {
            let deeper = expr::EvalContext::new_deepened(&ctx);
            std::mem::forget(ctx);
            ctx = deeper;
            i += 1;
        }
        let r = ctx.check_recursion_depth_limit(&mut report, sp());
        assert!(r.is_err() == (k >= expr::EVAL_RECURSION_DEPTH_MAX), "nesting beyond the documented evaluation depth accepted, or nesting below it rejected");
        assert!(expr::EVAL_RECURSION_DEPTH_MAX <= 25, "evaluation depth limit raised beyond what the harness explores");
        assert!(r.is_err() == (errs(&report) > 0), "limit reached without a diagnostic");
        kani::cover!(k + 1 == expr::EVAL_RECURSION_DEPTH_MAX && r.is_ok(), "deepest allowed nesting");
        kani::cover!(k == expr::EVAL_RECURSION_DEPTH_MAX && r.is_err(), "first rejected nesting");
        std::mem::forget(ctx); std::mem::forget(report);
    }
}


// ---------------------------------------------------------------- C19-a bank windows over the full machine word

fn any_opt() -> Option<usize> {
    if kani::any() { Some(kani::any()) } else { None }
}
modelled! {
    #[kani::unwind(5)]
    fn c19_a_bank_windows_full() {
        reset_report_model();
        let mut report = diagn::Report::new();
        let mut decls = empty_decls();
        let mut i = 0;
        while i < 3 { decls.bankdefs.verif_push_decl("b", 0, util::SymbolContext::new_global()); i += 1; }
        let mut defs = asm::defs::init();
        let (s1, o1) = (any_opt(), any_opt());
        let (s2, o2) = (any_opt(), any_opt());
        defs.bankdefs.define(util::ItemRef::new(0), bank(0, 8, 0, None, Some(0), false));
        defs.bankdefs.define(util::ItemRef::new(1), bank(1, 8, 0, s1, o1, false));
        defs.bankdefs.define(util::ItemRef::new(2), bank(2, 8, 0, s2, o2, false));
        let r = asm::output::check_bank_overlap(&mut report, &decls, &defs);
        // windows as mathematical integers
        let share = match (o1, o2) {
            (Some(a), Some(b)) => {
                let e1 = s1.map(|s| a as u128 + s as u128);
                let e2 = s2.map(|s| b as u128 + s as u128);
                let lt = |x: usize, e: Option<u128>| match e { Some(e) => (x as u128) < e, None => true };
                s1 != Some(0) && s2 != Some(0) && lt(b, e1) && lt(a, e2)
            }
            _ => false,
        };
        assert!(!(r.is_ok() && share), "banks whose output windows share a bit were accepted");
        assert!(r.is_ok() == (msgs(&report) == 0));
        kani::cover!(r.is_err() && o1 == Some(usize::MAX), "window starting at the last representable position");
        kani::cover!(r.is_ok() && o1.is_some() && o2.is_some());
        std::mem::forget(decls); std::mem::forget(defs); std::mem::forget(report);
    }
}


// ---------------------------------------------------------------- C19-a addresses against the bank range (final pass)
step! { int;
    #[kani::unwind(2)]
    #[kani::stub(customasm::util::BigInt::checked_sub, crate::model::st_sub)]
    #[kani::stub(customasm::util::BigInt::checked_mul, crate::model::st_mul)]
    fn c19_a_addr_bank_range() {
        // final pass: an address is accepted iff (a - start) x unit lies inside the bank's size in bits
        let v: i32 = kani::any();
        let start: i16 = kani::any();
        let k: usize = kani::any(); kani::assume(k < 5);
        let unit = [1usize, 3, 8, 16, 32][k];
        let size: Option<usize> = if kani::any() { let s: usize = kani::any(); kani::assume(s < (1usize << 40)); Some(s) } else { None };
        pre_int(v as i64, None);
        let (o, _) = addr_step(0, v as i64, start as i64, unit, size, v as i64, true);
        kani::cover!(o.resolved && size.is_some(), "address inside a sized bank accepted");
        kani::cover!(!o.ok && (v as i64) > start as i64, "address beyond the bank's size rejected");
        kani::cover!(!o.ok && (v as i64) < start as i64, "address below the bank's start rejected");
    }
}

// ---------------------------------------------------------------- C19-a position after an alignment, full machine-word range

fn u64_of(x: &BigInt) -> u64 {
    match x.maybe_into::<u64>() { Some(v) => v, None => { kani::assume(false); 0 } }
}
/// exact on non-negative 64-bit operands (result up to 2^65 through u128)
pub fn st_add_wide(a: &BigInt, _r: &mut diagn::Report, _s: diagn::Span, b: &BigInt) -> Result<BigInt, ()> {
    Ok(BigInt::new(u64_of(a) as u128 + u64_of(b) as u128, None))
}
/// exact for a 16-bit left operand and a right operand from the table of address units
pub fn st_mul_unit(a: &BigInt, _r: &mut diagn::Report, _s: diagn::Span, b: &BigInt) -> Result<BigInt, ()> {
    let x = u64_of(a);
    kani::assume(x < (1 << 16));
    let y = u64_of(b);
    let p = match y { 1 => x, 8 => x * 8, 16 => x * 16, _ => { kani::assume(false); 0 } };
    Ok(BigInt::new(p, None))
}
/// remainder by an alignment from the table {1, 8, 24, 64, 2^63}; dividend below 2^65
pub fn st_mod_tab(a: &BigInt, _r: &mut diagn::Report, _s: diagn::Span, b: &BigInt) -> Result<BigInt, ()> {
    let x: u128 = match a.maybe_into::<u128>() { Some(v) => v, None => { kani::assume(false); 0 } };
    let y = u64_of(b);
    let m = match y { 1 => 0, 8 => x % 8, 24 => x % 24, 64 => x % 64, 0x8000_0000_0000_0000 => x % 0x8000_0000_0000_0000u128, _ => { kani::assume(false); 0 } };
    Ok(BigInt::new(m, None))
}

/// [#addr a, X, end] where X is `#align A` (LABEL = false) or a top-level label in a bank with `#labelalign A`
fn align_position<const LABEL: bool, const FULL: bool>() {
    reset_report_model();
    let a: u64 = kani::any();
    let start: u16 = kani::any();
    let k: usize = kani::any(); kani::assume(k < 3);
    let unit = [1usize, 8, 16][k];
    let j: usize = kani::any(); kani::assume(j < 5);
    let al = [1usize, 8, 24, 64, 1usize << 63][j];
    // quick tier: byte-addressed bank, alignments 24 and 64 bits
    if !FULL { kani::assume(unit == 8 && (al == 24 || al == 64)); }
    let mut report = diagn::Report::new();
    let mut decls = empty_decls();
    let sym = decls.symbols.verif_push_decl("l", 0, util::SymbolContext::new_global());
    let mut defs = asm::defs::init();
    let mut b = bank(0, unit, start as i64, None, Some(0), false);
    if LABEL { b.label_align = Some(al); }
    defs.bankdefs.define(util::ItemRef::new(0), b);
    defs.addr_directives.define(util::ItemRef::new(0), asm::AddrDirective { item_ref: util::ItemRef::new(0), address: BigInt::new(a, None) });
    defs.align_directives.define(util::ItemRef::new(0), asm::AlignDirective { item_ref: util::ItemRef::new(0), align_size: al });
    let lit = || expr::Expr::Literal(sp(), expr::Value::Bool(false));
    let second = if LABEL {
        asm::AstAny::Symbol(asm::AstSymbol { decl_span: sp(), hierarchy_level: 0, name: String::from("l"), kind: asm::AstSymbolKind::Label, no_emit: false, item_ref: Some(sym) })
    } else {
        asm::AstAny::DirectiveAlign(asm::AstDirectiveAlign { header_span: sp(), expr: lit(), item_ref: Some(util::ItemRef::new(0)) })
    };
    let ast = asm::AstTopLevel { nodes: vec![
        asm::AstAny::DirectiveAddr(asm::AstDirectiveAddr { header_span: sp(), expr: lit(), item_ref: Some(util::ItemRef::new(0)) }),
        second,
        asm::AstAny::DirectiveAssert(asm::AstDirectiveAssert { header_span: sp(), condition_expr: lit() }),
    ] };
    let mut it = asm::ResolveIterator::new(&ast, &defs, false, false);
    let c1 = it.next(&mut report, &decls, &defs);
    assert!(matches!(c1, Ok(Some(_))));
    std::mem::forget(c1);
    // second step: position after #addr (and, for a label, after its alignment padding)
    let before2 = msgs(&report);
    let c2 = it.next(&mut report, &decls, &defs);
    let p2 = match &c2 { Ok(Some(ctx)) => Some(ctx.bank_data.cur_position), _ => None };
    assert!(p2.is_some() || (c2.is_err() && msgs(&report) > before2), "step neither succeeded nor was diagnosed");
    std::mem::forget(c2);
    let base = start as u128 * unit as u128;
    let mut final_pos = p2;
    if !LABEL {
        if p2.is_some() {
            let before3 = msgs(&report);
            let c3 = it.next(&mut report, &decls, &defs);
            final_pos = match &c3 { Ok(Some(ctx)) => Some(ctx.bank_data.cur_position), _ => None };
            assert!(final_pos.is_some() || (c3.is_err() && msgs(&report) > before3), "alignment overflow neither exact nor diagnosed");
            std::mem::forget(c3);
        }
    }
    if let Some(p) = final_pos {
        // whenever a position is delivered it is an aligned address at or after the #addr position, with minimal padding
        let after_addr: u128 = if a >= start as u64 && ((a - start as u64) as u128 * unit as u128) < (1u128 << 64) { (a - start as u64) as u128 * unit as u128 } else { 0 };
        assert!(p as u128 >= after_addr, "alignment moved backwards (wrap-around)");
        assert!((base + p as u128) % (al as u128) == 0, "position after alignment is not aligned");
        assert!((p as u128 - after_addr) < al as u128, "alignment padding is not minimal");
    }
    kani::cover!(final_pos.is_none() && a > (1u64 << 60), "padding beyond the machine word diagnosed");
    kani::cover!(final_pos.is_some() && a > (1u64 << 60) && al == 64, "aligned position just below the machine word");
    kani::cover!(final_pos.is_some() && a < 1000 && al == 24, "ordinary address");
    std::mem::forget(it); std::mem::forget(decls); std::mem::forget(defs); std::mem::forget(report); std::mem::forget(ast);
}

modelled! {
    #[kani::unwind(4)]
    #[kani::stub(customasm::util::BigInt::checked_sub, st_sub_u64)]
    #[kani::stub(customasm::util::BigInt::checked_add, st_add_wide)]
    #[kani::stub(customasm::util::BigInt::checked_mul, st_mul_unit)]
    #[kani::stub(customasm::util::BigInt::checked_mod, st_mod_tab)]
    fn c19_a_align_position() { align_position::<false, false>() }
}
modelled! {
    #[kani::unwind(4)]
    #[kani::stub(customasm::util::BigInt::checked_sub, st_sub_u64)]
    #[kani::stub(customasm::util::BigInt::checked_add, st_add_wide)]
    #[kani::stub(customasm::util::BigInt::checked_mul, st_mul_unit)]
    #[kani::stub(customasm::util::BigInt::checked_mod, st_mod_tab)]
    fn c19_a_labelalign_position() { align_position::<true, false>() }
}

modelled! {
    #[kani::unwind(4)]
    #[kani::stub(customasm::util::BigInt::checked_sub, st_sub_u64)]
    #[kani::stub(customasm::util::BigInt::checked_add, st_add_wide)]
    #[kani::stub(customasm::util::BigInt::checked_mul, st_mul_unit)]
    #[kani::stub(customasm::util::BigInt::checked_mod, st_mod_tab)]
    fn c19_a_align_position_full() { align_position::<false, true>() }
}
modelled! {
    #[kani::unwind(4)]
    #[kani::stub(customasm::util::BigInt::checked_sub, st_sub_u64)]
    #[kani::stub(customasm::util::BigInt::checked_add, st_add_wide)]
    #[kani::stub(customasm::util::BigInt::checked_mul, st_mul_unit)]
    #[kani::stub(customasm::util::BigInt::checked_mod, st_mod_tab)]
    fn c19_a_labelalign_position_full() { align_position::<true, true>() }
}
