//! C06 - output layout is safe.
use crate::model::*;
use customasm::util::BigInt;
use customasm::*;

/// C06-a: OverlapChecker accepts an insertion of size > 0 iff it shares no bit with
/// a previously accepted entry of size > 0. 3 insertions, position/size < 2^40.
fn overlap_n<const N: usize>() {
    reset_report_model();
    let mut oc = util::OverlapChecker::new();
    let mut report = diagn::Report::new();
    let mut acc: [(usize, usize, bool); N] = [(0, 0, false); N];
    let mut i = 0;
    while i < N {
        let p: usize = kani::any();
        let s: usize = kani::any();
        kani::assume(p < (1usize << 40) && s < (1usize << 40));
        let before = msgs(&report);
        let ok = oc.check_and_insert(&mut report, sp(), p, s).is_ok();
        acc[i] = (p, s, ok);
        // strict: both sized and sharing a bit. weak: treating an empty item as a point inside the other.
        let mut strict = false;
        let mut weak = false;
        let mut j = 0;
        while j < i {
            let (q, t, okj) = acc[j];
            if okj {
                if s > 0 && t > 0 && p < q + t && q < p + s {
                    strict = true;
                }
                let (s1, t1) = (if s == 0 { 1 } else { s }, if t == 0 { 1 } else { t });
                if p < q + t1 && q < p + s1 {
                    weak = true;
                }
            }
            j += 1;
        }
        // safety: an accepted item shares no output bit with an earlier accepted item
        assert!(!(ok && strict), "overlapping item accepted");
        // no spurious rejection: a rejected item at least touches the inside of an earlier one
        assert!(ok || weak, "item rejected although it is disjoint from every earlier item");
        let inter = strict;
        assert!(ok == (msgs(&report) == before), "Err without a diagnostic or diagnostic without Err");
        kani::cover!(i == N - 1 && !ok, "last insertion rejected");
        kani::cover!(i == N - 1 && ok && s > 0, "last insertion accepted");
        i += 1;
    }
    std::mem::forget(report);
    std::mem::forget(oc);
}

modelled! {
    #[kani::unwind(2)]
    fn c06_a_overlap3() { overlap_n::<3>() }
}
