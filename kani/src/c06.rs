//! C06 - output layout is safe.
use crate::model::*;
use customasm::util::BigInt;
use customasm::*;

/// C06-a: OverlapChecker accepts an insertion of size > 0 iff it shares no bit with
/// a previously accepted entry of size > 0. 3 insertions, position/size < 2^40.
fn overlap_n<const N: usize>() {
    reset_report_model();
    let mut oc = util::OverlapChecker::new();
    let mut report = diagn::Report::new();
    let mut acc: [(usize, usize, bool); N] = [(0, 0, false); N];
    let mut i = 0;
    while i < N {
        let p: usize = kani::any();
        let s: usize = kani::any();
        kani::assume(p < (1usize << 40) && s < (1usize << 40));
        let before = msgs(&report);
        let ok = oc.check_and_insert(&mut report, sp(), p, s).is_ok();
        acc[i] = (p, s, ok);
        // strict: both sized and sharing a bit. weak: treating an empty item as a point inside the other.
        let mut strict = false;
        let mut weak = false;
        let mut j = 0;
        while j < i {
            let (q, t, okj) = acc[j];
            if okj {
                if s > 0 && t > 0 && p < q + t && q < p + s {
                    strict = true;
                }
                let (s1, t1) = (if s == 0 { 1 } else { s }, if t == 0 { 1 } else { t });
                if p < q + t1 && q < p + s1 {
                    weak = true;
                }
            }
            j += 1;
        }
        // safety: an accepted item shares no output bit with an earlier accepted item
        assert!(!(ok && strict), "overlapping item accepted");
        // no spurious rejection: a rejected item at least touches the inside of an earlier one
        assert!(ok || weak, "item rejected although it is disjoint from every earlier item");
        let inter = strict;
        assert!(ok == (msgs(&report) == before), "Err without a diagnostic or diagnostic without Err");
        kani::cover!(i == N - 1 && !ok, "last insertion rejected");
        kani::cover!(i == N - 1 && ok && s > 0, "last insertion accepted");
        i += 1;
    }
    std::mem::forget(report);
    std::mem::forget(oc);
}

modelled! {
    #[kani::unwind(2)]
    fn c06_a_overlap3() { overlap_n::<3>() }
}

// ---------------------------------------------------------------- C06-b bank windows

fn any_opt40() -> Option<usize> {
    if kani::any() {
        let s: usize = kani::any();
        kani::assume(s < (1usize << 40));
        Some(s)
    } else {
        None
    }
}
fn decls_with_banks(n: usize) -> asm::ItemDecls {
    let mut decls = empty_decls();
    let mut i = 0;
    while i < n {
        decls.bankdefs.verif_push_decl("b", 0, util::SymbolContext::new_global());
        i += 1;
    }
    decls
}
/// windows [o, o+s) (s = None: unbounded). strict: share a bit; weak: an empty window counts as a point.
fn windows(o1: usize, s1: Option<usize>, o2: usize, s2: Option<usize>) -> (bool, bool) {
    let e1 = s1.map(|s| o1 + s);
    let e2 = s2.map(|s| o2 + s);
    let lt = |a: usize, e: Option<usize>| match e { Some(e) => a < e, None => true };
    let nonempty = |s: Option<usize>| s != Some(0);
    let strict = nonempty(s1) && nonempty(s2) && lt(o2, e1) && lt(o1, e2);
    let e1w = s1.map(|s| o1 + if s == 0 { 1 } else { s });
    let e2w = s2.map(|s| o2 + if s == 0 { 1 } else { s });
    let weak = lt(o2, e1w) && lt(o1, e2w);
    (strict, weak)
}

modelled! {
    #[kani::unwind(5)]
    fn c06_b_bank_windows2() {
        reset_report_model();
        let mut report = diagn::Report::new();
        let decls = decls_with_banks(3);
        let mut defs = asm::defs::init();
        let (s0, o0) = (any_opt40(), any_opt40());
        let (s1, o1) = (any_opt40(), any_opt40());
        let (s2, o2) = (any_opt40(), any_opt40());
        defs.bankdefs.define(util::ItemRef::new(0), bank(0, 8, 0, s0, o0, false));
        defs.bankdefs.define(util::ItemRef::new(1), bank(1, 8, 0, s1, o1, false));
        defs.bankdefs.define(util::ItemRef::new(2), bank(2, 8, 0, s2, o2, false));
        let r = asm::output::check_bank_overlap(&mut report, &decls, &defs);
        let (strict, weak) = match (o1, o2) {
            (Some(a), Some(b)) => windows(a, s1, b, s2),
            _ => (false, false),
        };
        assert!(!(r.is_ok() && strict), "banks whose output windows share a bit were accepted");
        assert!(r.is_ok() || weak, "banks with disjoint output windows were rejected");
        assert!(r.is_ok() == (msgs(&report) == 0), "Err without diagnostic or diagnostic without Err");
        kani::cover!(r.is_err() && s1.is_some() && s2.is_some(), "two bounded windows overlap");
        kani::cover!(r.is_ok() && o1.is_some() && o2.is_some() && s1.is_some(), "two output banks accepted");
        kani::cover!(r.is_ok() && o1.is_none(), "bank without output ignored");
        std::mem::forget(decls); std::mem::forget(defs); std::mem::forget(report);
    }
}

// ---------------------------------------------------------------- C06-d fill and zero gaps

modelled_bits! {
    #[kani::unwind(4)]
    fn c06_d_fill() {
        reset_report_model();
        reset_bitstore();
        let mut report = diagn::Report::new();
        let decls = decls_with_banks(3);
        let mut defs = asm::defs::init();
        let ast = asm::AstTopLevel { nodes: Vec::new() };
        defs.bankdefs.define(util::ItemRef::new(0), bank(0, 8, 0, None, Some(0), false));
        let (s1, o1): (usize, usize) = (kani::any(), kani::any());
        let (s2, o2): (usize, usize) = (kani::any(), kani::any());
        kani::assume(s1 <= 40 && o1 <= 40 && s2 <= 40 && o2 <= 40);
        let (f1, f2): (bool, bool) = (kani::any(), kani::any());
        defs.bankdefs.define(util::ItemRef::new(1), bank(1, 1, 0, Some(s1), Some(o1), f1));
        defs.bankdefs.define(util::ItemRef::new(2), bank(2, 8, 0, Some(s2), Some(o2), f2));
        let out = asm::output::build_output(&mut report, &ast, &decls, &defs).unwrap();
        let e1 = if f1 && s1 > 0 { o1 + s1 } else { 0 };
        let e2 = if f2 && s2 > 0 { o2 + s2 } else { 0 };
        let want = if e1 > e2 { e1 } else { e2 };
        assert!(out.len() == want, "output does not extend exactly to the end of the last filled bank");
        let i: usize = kani::any();
        kani::assume(i < 96);
        assert!(!dst_bit(i), "fill wrote a non-zero bit");
        kani::cover!(f1 && f2 && e1 > e2 && e2 > 0, "two filled banks, first ends last");
        kani::cover!(f1 && s1 == 1, "one-bit filled bank");
        kani::cover!(f2 && s2 == 0, "filled bank of size 0");
        kani::cover!(!f1 && !f2, "no fill");
        std::mem::forget(decls); std::mem::forget(defs); std::mem::forget(report); std::mem::forget(out); std::mem::forget(ast);
    }
}

// ---------------------------------------------------------------- C06-e alignment

/// x % y on 16-bit magnitudes (a symbolic 64-bit divider is out of reach for the SAT back end)
pub fn st_mod16(a: &BigInt, r: &mut diagn::Report, _s: diagn::Span, b: &BigInt) -> Result<BigInt, ()> {
    let (x, y) = (a.maybe_into::<u16>(), b.maybe_into::<u16>());
    match (x, y) {
        (Some(x), Some(y)) => {
            if y == 0 { r.error("division by zero"); return Err(()); }
            Ok(BigInt::new((x % y) as u64, None))
        }
        _ => { kani::assume(false); Err(()) }
    }
}

modelled! {
    #[kani::unwind(4)]
    #[kani::stub(customasm::util::BigInt::checked_add, crate::model::st_add)]
    #[kani::stub(customasm::util::BigInt::checked_mul, crate::model::st_mul)]
    #[kani::stub(customasm::util::BigInt::checked_mod, st_mod16)]
    fn c06_e_align_advance() {
        // [data of s0 bits, #align a, label]: the label's position is the smallest p >= s0 with
        // (start*unit + p) % a == 0
        reset_report_model();
        let mut report = diagn::Report::new();
        let mut decls = empty_decls();
        let sym = decls.symbols.verif_push_decl("l", 0, util::SymbolContext::new_global());
        let mut defs = asm::defs::init();
        let uk: usize = kani::any(); kani::assume(uk < 3);
        let unit = [1usize, 8, 16][uk];
        let start: u8 = kani::any();
        defs.bankdefs.define(util::ItemRef::new(0), bank(0, unit, start as i64, None, Some(0), false));
        let s0: usize = kani::any(); kani::assume(s0 < 200);
        let a: usize = kani::any(); kani::assume(a <= 64);
        defs.data_elems.define(util::ItemRef::new(0), asm::DataElement { item_ref: util::ItemRef::new(0), position_within_bank: None, encoding_statically_known: true, encoding: BigInt::new(0, Some(s0)), resolved: false });
        defs.align_directives.define(util::ItemRef::new(0), asm::AlignDirective { item_ref: util::ItemRef::new(0), align_size: a });
        let lit = || expr::Expr::Literal(sp(), expr::Value::Bool(false));
        let ast = asm::AstTopLevel { nodes: vec![
            asm::AstAny::DirectiveData(asm::AstDirectiveData { header_span: sp(), elem_size: None, elems: vec![lit()], item_refs: vec![util::ItemRef::new(0)] }),
            asm::AstAny::DirectiveAlign(asm::AstDirectiveAlign { header_span: sp(), expr: lit(), item_ref: Some(util::ItemRef::new(0)) }),
            asm::AstAny::Symbol(asm::AstSymbol { decl_span: sp(), hierarchy_level: 0, name: String::from("l"), kind: asm::AstSymbolKind::Label, no_emit: false, item_ref: Some(sym) }),
        ] };
        let mut it = asm::ResolveIterator::new(&ast, &defs, false, false);
        let mut k = 0;
        let mut pos_label = 0;
        while k < 3 {
            match it.next(&mut report, &decls, &defs) {
                Ok(Some(ctx)) => { if k == 2 { pos_label = ctx.bank_data.cur_position; } std::mem::forget(ctx); }
                _ => assert!(false, "iterator ended early"),
            }
            k += 1;
        }
        let base = start as usize * unit;
        assert!(pos_label >= s0, "alignment moved backwards");
        if a == 0 {
            assert!(pos_label == s0, "alignment 0 is not a no-op while guessing");
        } else {
            assert!((base + pos_label) % a == 0, "position after #align is not aligned");
            assert!(pos_label - s0 < a, "alignment padding is not minimal");
        }
        kani::cover!(a == 8 && s0 % 8 == 4 && unit == 8, "half-byte position aligned up");
        kani::cover!(a == 24 && pos_label > s0, "non power-of-two alignment");
        kani::cover!(a > 0 && pos_label == s0, "already aligned");
        std::mem::forget(it); std::mem::forget(decls); std::mem::forget(defs); std::mem::forget(report); std::mem::forget(ast);
    }
}

modelled! {
    #[kani::unwind(2)]
    fn c06_a_overlap4() { overlap_n::<4>() }
}

modelled! {
    #[kani::unwind(6)]
    fn c06_b_bank_windows3() {
        // three user banks: any two whose output windows share a bit are rejected
        reset_report_model();
        let mut report = diagn::Report::new();
        let decls = decls_with_banks(4);
        let mut defs = asm::defs::init();
        defs.bankdefs.define(util::ItemRef::new(0), bank(0, 8, 0, None, Some(0), false));
        let mut s = [None; 3];
        let mut o = [None; 3];
        let mut i = 0;
        while i < 3 {
            s[i] = any_opt40();
            o[i] = any_opt40();
            defs.bankdefs.define(util::ItemRef::new(i + 1), bank(i + 1, 8, 0, s[i], o[i], false));
            i += 1;
        }
        let r = asm::output::check_bank_overlap(&mut report, &decls, &defs);
        let mut strict = false;
        let mut weak = false;
        let mut a = 0;
        while a < 3 {
            let mut b = a + 1;
            while b < 3 {
                if let (Some(x), Some(y)) = (o[a], o[b]) {
                    let (st, wk) = windows(x, s[a], y, s[b]);
                    strict = strict || st;
                    weak = weak || wk;
                }
                b += 1;
            }
            a += 1;
        }
        assert!(!(r.is_ok() && strict), "banks whose output windows share a bit were accepted");
        assert!(r.is_ok() || weak, "banks with pairwise disjoint output windows were rejected");
        kani::cover!(r.is_err() && o[0].is_some() && o[2].is_some() && o[1].is_none(), "first and third bank overlap");
        kani::cover!(r.is_ok() && o[0].is_some() && o[1].is_some() && o[2].is_some(), "three disjoint output banks");
        std::mem::forget(decls); std::mem::forget(defs); std::mem::forget(report);
    }
}

// ---------------------------------------------------------------- C06-f one item against its bank

fn any_opt_usize() -> Option<usize> {
    if kani::any() { Some(kani::any()) } else { None }
}

modelled! {
    #[kani::unwind(4)]
    fn c06_f_item_in_bank() {
        // the per-item checks of build_output: an item of `size` bits at bank position `pos` is accepted
        // iff it ends inside the bank (no machine-word wrap) and, when it writes, the bank has an output offset
        reset_report_model();
        let mut report = diagn::Report::new();
        let decls = decls_with_banks(2);
        let mut defs = asm::defs::init();
        defs.bankdefs.define(util::ItemRef::new(0), bank(0, 8, 0, None, Some(0), false));
        let (bsize, outp) = (any_opt_usize(), any_opt_usize());
        defs.bankdefs.define(util::ItemRef::new(1), bank(1, 8, 0, bsize, outp, false));
        let pos: usize = kani::any();
        let size: usize = kani::any();
        let write: bool = kani::any();
        let bd = asm::resolver::BankData { cur_position: pos };
        let ctx = rctx(&bd, 1, false, true);
        let r = asm::output::verif_check_bank_output(&mut report, sp(), &decls, &defs, &ctx, size, write);
        let inside = match bsize { None => true, Some(b) => (pos as u128) + (size as u128) <= (b as u128) };
        let writable = !write || outp.is_some();
        assert!(!(r.is_ok() && !inside), "item that leaves its bank was accepted");
        assert!(!(r.is_ok() && !writable), "write to a bank without an output offset was accepted");
        assert!(r.is_ok() || !inside || !writable, "item inside a writable bank was rejected");
        assert!(r.is_ok() == (msgs(&report) == 0), "Err without diagnostic or diagnostic without Err");
        kani::cover!(r.is_ok() && bsize.is_some() && size > 0 && (pos as u128) + (size as u128) == bsize.unwrap() as u128, "item ends exactly at the bank's end");
        kani::cover!(r.is_err() && inside, "non-writable bank");
        kani::cover!(r.is_err() && pos.checked_add(size).is_none(), "end beyond the machine word");
        kani::cover!(r.is_ok() && !write && outp.is_none(), "reservation in a non-writable bank");
        std::mem::forget(ctx); std::mem::forget(decls); std::mem::forget(defs); std::mem::forget(report);
    }
}

modelled! {
    #[kani::unwind(5)]
    fn c06_f_default_bank_usage() {
        // items in the default bank are accepted iff no user bank exists
        reset_report_model();
        let mut report = diagn::Report::new();
        let mut defs = asm::defs::init();
        defs.bankdefs.define(util::ItemRef::new(0), bank(0, 8, 0, None, Some(0), false));
        let n: usize = kani::any(); kani::assume(n <= 2);
        let mut i = 0;
        while i < n {
            defs.bankdefs.define(util::ItemRef::new(i + 1), bank(i + 1, 8, 0, None, Some(0), false));
            i += 1;
        }
        let which: usize = kani::any(); kani::assume(which <= n);
        let bd = asm::resolver::BankData { cur_position: kani::any() };
        let ctx = rctx(&bd, which, false, true);
        let r = asm::output::verif_check_bank_usage(&mut report, sp(), &defs, &ctx);
        assert!(r.is_ok() == (which != 0 || n == 0), "default-bank usage rule");
        assert!(r.is_ok() == (msgs(&report) == 0), "Err without diagnostic or diagnostic without Err");
        kani::cover!(r.is_err(), "default bank used beside a user bank");
        kani::cover!(r.is_ok() && which == 0, "default bank alone");
        kani::cover!(r.is_ok() && which == 2, "second user bank");
        std::mem::forget(ctx); std::mem::forget(defs); std::mem::forget(report);
    }
}

// ---------------------------------------------------------------- C06-e' labelalign

modelled! {
    #[kani::unwind(4)]
    #[kani::stub(customasm::util::BigInt::checked_add, crate::model::st_add)]
    #[kani::stub(customasm::util::BigInt::checked_mul, crate::model::st_mul)]
    #[kani::stub(customasm::util::BigInt::checked_mod, st_mod16)]
    fn c06_e_labelalign() {
        // [data of s0 bits, label at depth d] in a bank with `#labelalign a`: a top-level label sits at the
        // smallest p >= s0 with (start*unit + p) % a == 0; a nested label is not moved
        reset_report_model();
        let mut report = diagn::Report::new();
        let mut decls = empty_decls();
        let depth: usize = kani::any(); kani::assume(depth <= 1);
        let sym = decls.symbols.verif_push_decl("l", depth, util::SymbolContext::new_global());
        let mut defs = asm::defs::init();
        let uk: usize = kani::any(); kani::assume(uk < 3);
        let unit = [1usize, 8, 16][uk];
        let start: u8 = kani::any();
        let a: usize = kani::any(); kani::assume(a >= 1 && a <= 64);
        let has: bool = kani::any();
        let mut b = bank(0, unit, start as i64, None, Some(0), false);
        b.label_align = if has { Some(a) } else { None };
        defs.bankdefs.define(util::ItemRef::new(0), b);
        let s0: usize = kani::any(); kani::assume(s0 < 200);
        defs.data_elems.define(util::ItemRef::new(0), asm::DataElement { item_ref: util::ItemRef::new(0), position_within_bank: None, encoding_statically_known: true, encoding: BigInt::new(0, Some(s0)), resolved: false });
        let lit = || expr::Expr::Literal(sp(), expr::Value::Bool(false));
        let ast = asm::AstTopLevel { nodes: vec![
            asm::AstAny::DirectiveData(asm::AstDirectiveData { header_span: sp(), elem_size: None, elems: vec![lit()], item_refs: vec![util::ItemRef::new(0)] }),
            asm::AstAny::Symbol(asm::AstSymbol { decl_span: sp(), hierarchy_level: depth, name: String::from("l"), kind: asm::AstSymbolKind::Label, no_emit: false, item_ref: Some(sym) }),
        ] };
        let mut it = asm::ResolveIterator::new(&ast, &defs, false, false);
        let mut k = 0;
        let mut pos_label = 0;
        while k < 2 {
            match it.next(&mut report, &decls, &defs) {
                Ok(Some(ctx)) => { if k == 1 { pos_label = ctx.bank_data.cur_position; } std::mem::forget(ctx); }
                _ => assert!(false, "iterator ended early"),
            }
            k += 1;
        }
        let base = start as usize * unit;
        assert!(pos_label >= s0, "label alignment moved backwards");
        if !has || depth != 0 {
            assert!(pos_label == s0, "label moved although no label alignment applies to it");
        } else {
            assert!((base + pos_label) % a == 0, "top-level label is not aligned to #labelalign");
            assert!(pos_label - s0 < a, "label alignment padding is not minimal");
        }
        kani::cover!(has && depth == 0 && a == 32 && start == 3 && unit == 8 && pos_label > s0, "label padded in a bank with a non-zero start");
        kani::cover!(has && depth == 1, "nested label");
        kani::cover!(has && depth == 0 && pos_label == s0 && a > 1, "already aligned");
        std::mem::forget(it); std::mem::forget(decls); std::mem::forget(defs); std::mem::forget(report); std::mem::forget(ast);
    }
}
