//! C04 - typed arguments and sized data accept exactly their range.
use crate::model::*;
use customasm::util::BigInt;
use customasm::*;

fn pow2(n: usize) -> i64 {
    1i64 << n
}
/// The range of the statement, over machine integers.
pub fn in_range(kind: u8, n: usize, v: i64) -> bool {
    match kind {
        0 => v >= 0 && v < pow2(n),
        1 => n >= 1 && v >= -pow2(n - 1) && v < pow2(n - 1),
        _ => (n == 0 && v == 0) || (n >= 1 && v >= -pow2(n - 1) && v < pow2(n)),
    }
}

struct VSize { magic: u64, sized: bool }
static mut VS: VSize = VSize { magic: 0x5653_5eed_c0de_0022, sized: false };
fn arg_was_sized() -> bool { unsafe { VS.sized } }

/// C04-a: check_and_constrain_argument accepts exactly the range of the type and keeps the value.
fn constrain(kind: u8, n: usize, v: i64, kf_region: bool) -> bool {
    reset_report_model();
    // known finding F15: width 0 rejects the value 0 for u0 / i0 (min_size(0) == 1)
    let in_kf = n == 0 && v == 0 && kind != 1;
    kani::assume(in_kf == kf_region);
    let typ = match kind {
        0 => asm::RuleParameterType::Unsigned(n),
        1 => asm::RuleParameterType::Signed(n),
        _ => asm::RuleParameterType::Integer(n),
    };
    let mut report = diagn::Report::new();
    // the argument may already carry a declared size (a typed parameter forwarded to another rule, a sized
    // literal): the range decision is about its value, whatever that size is
    let vsize: Option<usize> = if kani::any() { Some(kani::any::<u8>() as usize) } else { None };
    unsafe { VS.sized = vsize.is_some(); }
    let r = asm::resolver::verif_hooks::check_and_constrain_argument(&mut report, sp(), expr::Value::make_integer(BigInt::new(v, vsize)), typ);
    let want = in_range(kind, n, v);
    let accepted = matches!(r, Ok(expr::Value::Integer(_)));
    match r {
        Ok(expr::Value::Integer(b)) => {
            assert!(want, "out-of-range argument accepted");
            assert!(b.size == Some(n), "accepted argument does not carry the parameter width");
            assert!(b.maybe_into::<i64>() == Some(v), "accepted argument value changed");
            std::mem::forget(b);
        }
        Ok(other) => {
            assert!(!want, "in-range argument rejected");
            assert!(matches!(other, expr::Value::FailedConstraint(_)), "rejection is not a FailedConstraint");
            std::mem::forget(other);
        }
        Err(()) => {
            // rejecting through an immediate error instead of a deferred constraint is equally loud
            assert!(!want, "in-range argument rejected");
            assert!(errs(&report) > 0, "Err without an error diagnostic");
        }
    }
    if accepted { assert!(msgs(&report) == 0, "accepted argument with a diagnostic"); }
    std::mem::forget(report);
    accepted
}

modelled! {
    #[kani::unwind(3)]
    fn c04_a_constrain_u() {
        let n: usize = kani::any(); kani::assume(n <= 16);
        let v: i32 = kani::any(); kani::assume(v >= -(1 << 17) - 4 && v <= (1 << 17) + 4);
        let acc = constrain(0, n, v as i64, false);
        kani::cover!(acc && arg_was_sized() && n >= 1, "accepted argument that already carried a declared size");
        kani::cover!(acc && n >= 1 && v as i64 == pow2(n) - 1, "largest unsigned value accepted");
        kani::cover!(!acc && v as i64 == pow2(n), "first value above the unsigned range rejected");
        kani::cover!(!acc && v == -1, "negative value rejected by an unsigned type");
    }
}
modelled! {
    #[kani::unwind(3)]
    fn c04_a_constrain_s() {
        let n: usize = kani::any(); kani::assume(n >= 1 && n <= 16);
        let v: i32 = kani::any(); kani::assume(v >= -(1 << 17) - 4 && v <= (1 << 17) + 4);
        let acc = constrain(1, n, v as i64, false);
        kani::cover!(acc && arg_was_sized() && v < 0, "accepted negative argument that already carried a declared size");
        kani::cover!(acc && v as i64 == pow2(n - 1) - 1, "largest signed value accepted");
        kani::cover!(acc && v as i64 == -pow2(n - 1), "most negative signed value accepted");
        kani::cover!(!acc && v as i64 == pow2(n - 1), "first value above the signed range rejected");
        kani::cover!(!acc && v as i64 == -pow2(n - 1) - 1, "first value below the signed range rejected");
    }
}
modelled! {
    #[kani::unwind(3)]
    fn c04_a_constrain_i() {
        let n: usize = kani::any(); kani::assume(n <= 16);
        let v: i32 = kani::any(); kani::assume(v >= -(1 << 17) - 4 && v <= (1 << 17) + 4);
        let acc = constrain(2, n, v as i64, false);
        kani::cover!(acc && n >= 1 && v as i64 == pow2(n) - 1, "largest unsigned value accepted by iN");
        kani::cover!(acc && n >= 1 && v as i64 == -pow2(n - 1), "most negative signed value accepted by iN");
        kani::cover!(!acc && v as i64 == pow2(n), "first value above the iN range rejected");
        kani::cover!(!acc && n >= 1 && v as i64 == -pow2(n - 1) - 1, "first value below the iN range rejected");
    }
}
modelled! {
    #[kani::unwind(3)]
    fn c04_a_constrain_w0_kf() {
        let k: u8 = kani::any(); kani::assume(k == 0 || k == 2);
        constrain(k, 0, 0, true);
    }
}
modelled! {
    #[kani::unwind(4)]
    fn c04_a_constrain_u32() {
        let n: usize = kani::any(); kani::assume(n <= 32);
        let v: i32 = kani::any();
        let acc = constrain(0, n, v as i64, false);
        kani::cover!(acc && n >= 1 && v as i64 == pow2(n) - 1, "largest unsigned value accepted");
        kani::cover!(!acc && v as i64 == pow2(n), "first value above the unsigned range rejected");
        kani::cover!(!acc && v == -1, "negative value rejected by an unsigned type");
    }
}
modelled! {
    #[kani::unwind(4)]
    fn c04_a_constrain_s32() {
        let n: usize = kani::any(); kani::assume(n >= 1 && n <= 32);
        let v: i32 = kani::any();
        let acc = constrain(1, n, v as i64, false);
        kani::cover!(acc && v as i64 == pow2(n - 1) - 1, "largest signed value accepted");
        kani::cover!(acc && v as i64 == -pow2(n - 1), "most negative signed value accepted");
        kani::cover!(!acc && v as i64 == pow2(n - 1), "first value above the signed range rejected");
        kani::cover!(!acc && v as i64 == -pow2(n - 1) - 1, "first value below the signed range rejected");
    }
}
modelled! {
    #[kani::unwind(4)]
    fn c04_a_constrain_i32() {
        let n: usize = kani::any(); kani::assume(n <= 32);
        let v: i32 = kani::any();
        let acc = constrain(2, n, v as i64, false);
        kani::cover!(acc && n >= 1 && v as i64 == pow2(n) - 1, "largest unsigned value accepted by iN");
        kani::cover!(acc && n >= 1 && v as i64 == -pow2(n - 1), "most negative signed value accepted by iN");
        kani::cover!(!acc && v as i64 == pow2(n), "first value above the iN range rejected");
        kani::cover!(!acc && n >= 1 && v as i64 == -pow2(n - 1) - 1, "first value below the iN range rejected");
    }
}

/// C04-b: min_size against a leading-zeros specification.
fn min_size_spec(v: i64) -> usize {
    if v == 0 {
        1
    } else if v > 0 {
        (64 - v.leading_zeros()) as usize
    } else {
        (64 - (!v).leading_zeros() + 1) as usize
    }
}
#[kani::proof]
#[kani::unwind(3)]
#[kani::stub(core::arch::x86_64::_addcarry_u64, crate::model::adc_stub)]
#[kani::stub(core::arch::x86_64::_subborrow_u64, crate::model::sbb_stub)]
fn c04_b_min_size16() {
    let v: i16 = kani::any();
    let x = BigInt::new(v as i64, None);
    assert!(x.min_size() == min_size_spec(v as i64), "min_size differs from the two's-complement width");
    assert!(x.sign() == (v as i64).signum() as isize);
    kani::cover!(v == -1);
    kani::cover!(v == i16::MIN);
    std::mem::forget(x);
}
#[kani::proof]
#[kani::unwind(3)]
#[kani::stub(core::arch::x86_64::_addcarry_u64, crate::model::adc_stub)]
#[kani::stub(core::arch::x86_64::_subborrow_u64, crate::model::sbb_stub)]
fn c04_b_min_size64() {
    let v: i64 = kani::any();
    kani::assume(v > i64::MIN);
    let x = BigInt::new(v, None);
    assert!(x.min_size() == min_size_spec(v), "min_size differs from the two's-complement width");
    kani::cover!(v == i64::MAX);
    kani::cover!(v < -(1i64 << 40));
    std::mem::forget(x);
}

// ---------------------------------------------------------------- C04-c sized values against the directive width
use crate::steps::*;
step! { int;
    #[kani::unwind(2)]
    fn c04_c_data_sized_value() {
        // #dN with a sized value (e.g. a hex literal of S bits): accepted iff S <= N, stored = the value's low N bits
        let n: usize = kani::any(); kani::assume(n >= 1 && n <= 12);
        let s: usize = kani::any(); kani::assume(s >= 1 && s <= 16);
        let v: u16 = kani::any(); kani::assume((v as u32) < (1u32 << s));
        let prev: i16 = kani::any(); kani::assume(prev >= 0 && (prev as i64) < (1i64 << n));
        pre_int(v as i64, Some(s));
        let (res, _, stored) = data_element_step(n, v as i64, Some(s), 0, false, true, false, true, prev as i64);
        kani::cover!(res && s == n, "value exactly as wide as the directive");
        kani::cover!(res && s < n && stored == v as u64, "narrower sized value zero-extended");
        kani::cover!(!res, "not resolved");
    }
}
