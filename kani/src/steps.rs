//! Resolver *step* harnesses shared by C01/C02/C03/C04/C08/C09: one call of a real
//! per-item resolver function from an arbitrary previous state, with the expression
//! evaluator replaced by a contract stub that returns a harness-chosen result.
use crate::model::*;
use customasm::util::BigInt;
use customasm::*;

// state of the stubbed evaluator (struct with a magic word: see model.rs)
pub struct EvalModel {
    pub magic: u64,
    pub calls: usize,
    pub pre: Option<expr::Value>,
    pub pre2: Option<expr::Value>,
}
pub static mut EV: EvalModel = EvalModel { magic: 0x4556_5eed_c0de_0003, calls: 0, pre: None, pre2: None };

/// Contract stub for asm::resolver::eval::eval: hands out the value the harness prepared
/// (`pre_*`), or - when nothing was prepared - records an error and returns Err.
///
/// Kani 0.68 artefact worked around here: a function that constructs a heap-carrying
/// `expr::Value` variant inside a stub body, or several variants under a symbolic
/// selector, yields enum values whose empty `Vec`s read back with capacity 1, which
/// shows up as spurious `__rust_dealloc` failures that also cut the path. So every
/// harness fixes the result kind and builds the value in its own body.
pub fn st_eval_pre(report: &mut diagn::Report, _opts: &asm::AssemblyOptions, _fs: &mut dyn util::FileServer, _decls: &asm::ItemDecls, _defs: &asm::ItemDefs, _ctx: &asm::ResolverContext, _ectx: &mut expr::EvalContext, _e: &expr::Expr) -> Result<expr::Value, ()> {
    unsafe {
        EV.calls += 1;
        let next = if EV.pre.is_some() { EV.pre.take() } else { EV.pre2.take() };
        match next {
            Some(v) => Ok(v),
            None => {
                report.error("eval failed");
                Err(())
            }
        }
    }
}
pub fn pre_int(v: i64, size: Option<usize>) {
    unsafe { EV.pre = Some(expr::Value::make_integer(BigInt::new(v, size))); }
}
pub fn pre_unknown() {
    unsafe { EV.pre = Some(expr::Value::Unknown); }
}
pub fn pre_failed() {
    unsafe { EV.pre = Some(expr::Value::FailedConstraint(diagn::Message::error("constraint"))); }
}
pub fn pre_bool(b: bool) {
    unsafe { EV.pre = Some(expr::Value::Bool(b)); }
}
/// second value of the queue (handed out after the first)
pub fn pre2_int(v: i64, size: Option<usize>) {
    unsafe { EV.pre2 = Some(expr::Value::make_integer(BigInt::new(v, size))); }
}
pub fn pre2_failed() {
    unsafe { EV.pre2 = Some(expr::Value::FailedConstraint(diagn::Message::error("constraint"))); }
}
pub fn pre_err() {
    unsafe { EV.pre = None; }
}
pub fn set_eval(_kind: u8, _val: i64, _size: Option<usize>) {
    unsafe { EV.calls = 0; }
}

/// Attaches the evaluator stub and the slice contract on top of the Report model.
/// The first token documents the result kind the harness prepares.
#[macro_export]
macro_rules! step {
    ($kind:ident; $(#[$m:meta])* fn $name:ident() $body:block) => {
        modelled! {
            #[kani::stub(customasm::asm::resolver::eval::eval, crate::steps::st_eval_pre)]
            #[kani::stub(customasm::util::BigInt::slice, crate::model::st_slice)]
            $(#[$m])*
            fn $name() $body
        }
    };
}

/// low `n` bits of v as an unsigned number
pub fn low_bits(v: i64, n: usize) -> u64 {
    if n >= 64 { v as u64 } else { (v as u64) & ((1u64 << n) - 1) }
}

/// `#dN` data element step. Arbitrary previous stored encoding (value, width N), arbitrary
/// evaluation result. Checks acceptance range, stored bits, Resolved => unchanged, contracts.
pub fn data_element_step(n: usize, v: i64, vsize: Option<usize>, kind: u8, first: bool, last: bool, statically_known: bool, optimize: bool, prev: i64) -> (bool, bool, u64) {
    reset_report_model();
    set_eval(kind, v, vsize);
    let mut report = diagn::Report::new();
    let decls = empty_decls();
    let mut defs = asm::defs::init();
    defs.bankdefs.define(util::ItemRef::new(0), bank(0, 8, 0, None, Some(0), false));
    defs.data_elems.define(util::ItemRef::new(0), asm::DataElement {
        item_ref: util::ItemRef::new(0), position_within_bank: None,
        encoding_statically_known: statically_known,
        encoding: BigInt::new(prev, Some(n)), resolved: false });
    let ast = asm::AstDirectiveData { header_span: sp(), elem_size: Some(n),
        elems: vec![expr::Expr::Literal(sp(), expr::Value::Bool(false))], item_refs: vec![util::ItemRef::new(0)] };
    let bd = asm::resolver::BankData { cur_position: 0 };
    let ctx = rctx(&bd, 0, first, last);
    let mut opts = asm::AssemblyOptions::new();
    opts.optimize_statically_known = optimize;
    let mut fs = NoFs;
    let r = asm::resolver::verif_hooks::resolve_data_element(&mut report, &opts, &mut fs, &ast, 0, &decls, &mut defs, &ctx);
    let must_decide = last || statically_known;
    // representable in N bits, signed or unsigned; a sized value must not be wider than N
    let fits = match vsize {
        None => n >= 1 && v >= -(1i64 << (n - 1)) && v < (1i64 << n) || (n == 0 && false),
        Some(s) => s <= n,
    };
    let elem = defs.data_elems.get(util::ItemRef::new(0));
    let mut stored: u64 = 0;
    let resolved_ok = matches!(r, Ok(asm::ResolutionState::Resolved));
    match r {
        Ok(ref state) => {
            assert!(errs(&report) == 0 || (last && !resolved_ok), "Ok with an error recorded on a pass that is not a failed final pass");
            if kind == 0 {
                if must_decide { assert!(fits, "value that does not fit the directive width was accepted (truncated)"); }
                assert!(elem.encoding.size == Some(n), "stored encoding does not have the directive width");
                // stored value = low N bits of v
                stored = match elem.encoding.maybe_into::<u64>() { Some(x) => x, None => { assert!(false, "stored encoding is negative or too wide"); 0 } };
                assert!(stored == low_bits(v, n), "stored bits are not the low N bits of the value");
                let same = prev as u64 == low_bits(v, n);
                if resolved_ok && !elem.resolved { assert!(same, "Resolved although the stored encoding changed in this pass"); }
                if !resolved_ok { assert!(!same, "Unresolved although nothing changed"); }
                if !resolved_ok && last { assert!(errs(&report) > 0, "final pass unresolved without a diagnostic"); }
                if elem.resolved { assert!(statically_known && first && optimize, "resolved flag set although the value is not statically known on the first pass"); }
            } else {
                // Unknown / FailedConstraint on a guessing pass: keeps the previous encoding, not resolved
                assert!(!must_decide, "undetermined value accepted on a deciding pass");
                assert!(!elem.resolved);
            }
        }
        Err(()) => {
            assert!(errs(&report) > 0, "Err without an error diagnostic");
            if kind == 0 { assert!(must_decide && !fits, "in-range value rejected"); }
        }
    }
    let is_res_flag = elem.resolved;
    std::mem::forget(decls);
    std::mem::forget(defs);
    std::mem::forget(report);
    std::mem::forget(ast);
    (resolved_ok, is_res_flag, stored)
}

// ---------------------------------------------------------------- #res / #align / #addr steps

/// Outcome summary of a step.
pub struct StepOut {
    pub ok: bool,
    pub resolved: bool,
    pub errs: usize,
}

fn finish(r: &Result<asm::ResolutionState, ()>, report: &diagn::Report) -> StepOut {
    let out = StepOut { ok: r.is_ok(), resolved: matches!(r, Ok(asm::ResolutionState::Resolved)), errs: errs(report) };
    // contracts shared by every step (C03-c)
    if !out.ok { assert!(out.errs > 0, "Err without an error diagnostic"); }
    if out.resolved { assert!(msgs(report) == 0, "Resolved although a diagnostic was recorded"); }
    out
}

/// `#res v`: stored size = v * addr_unit; Resolved => unchanged; final pass undecided => error.
pub fn res_step(kind: u8, v: i64, unit: usize, prev: usize, last: bool) -> (StepOut, usize) {
    reset_report_model();
    set_eval(kind, v, None);
    let mut report = diagn::Report::new();
    let decls = empty_decls();
    let mut defs = asm::defs::init();
    defs.bankdefs.define(util::ItemRef::new(0), bank(0, unit, 0, None, Some(0), false));
    defs.res_directives.define(util::ItemRef::new(0), asm::ResDirective { item_ref: util::ItemRef::new(0), reserve_size: prev });
    let ast = asm::AstDirectiveRes { header_span: sp(), expr: expr::Expr::Literal(sp(), expr::Value::Bool(false)), item_ref: Some(util::ItemRef::new(0)) };
    let bd = asm::resolver::BankData { cur_position: 0 };
    let ctx = rctx(&bd, 0, false, last);
    let opts = asm::AssemblyOptions::new();
    let mut fs = NoFs;
    let r = asm::resolver::verif_hooks::resolve_res(&mut report, &opts, &mut fs, &ast, &decls, &mut defs, &ctx);
    let out = finish(&r, &report);
    let stored = defs.res_directives.get(util::ItemRef::new(0)).reserve_size;
    if kind == 0 {
        let in_u32 = v >= 0 && v <= u32::MAX as i64;
        if out.ok {
            assert!(in_u32, "reservation outside the supported magnitude accepted");
            assert!(stored as u64 == (v as u64) * (unit as u64), "reserved size is not count x address unit");
            assert!(out.resolved == (stored == prev), "Resolved differs from 'stored value unchanged'");
        } else {
            assert!(!in_u32, "supported reservation rejected");
        }
    } else if out.ok {
        assert!(!(last && out.resolved), "undetermined reservation size accepted on the final pass");
    }
    if out.ok && !out.resolved && last { assert!(out.errs > 0, "final pass unresolved without a diagnostic"); }
    std::mem::forget(decls); std::mem::forget(defs); std::mem::forget(report); std::mem::forget(ast);
    (out, stored)
}

/// `#align v`
pub fn align_step(kind: u8, v: i64, prev: usize, last: bool) -> (StepOut, usize) {
    reset_report_model();
    set_eval(kind, v, None);
    let mut report = diagn::Report::new();
    let decls = empty_decls();
    let mut defs = asm::defs::init();
    defs.bankdefs.define(util::ItemRef::new(0), bank(0, 8, 0, None, Some(0), false));
    defs.align_directives.define(util::ItemRef::new(0), asm::AlignDirective { item_ref: util::ItemRef::new(0), align_size: prev });
    let ast = asm::AstDirectiveAlign { header_span: sp(), expr: expr::Expr::Literal(sp(), expr::Value::Bool(false)), item_ref: Some(util::ItemRef::new(0)) };
    let bd = asm::resolver::BankData { cur_position: 0 };
    let ctx = rctx(&bd, 0, false, last);
    let opts = asm::AssemblyOptions::new();
    let mut fs = NoFs;
    let r = asm::resolver::verif_hooks::resolve_align(&mut report, &opts, &mut fs, &ast, &decls, &mut defs, &ctx);
    let out = finish(&r, &report);
    let stored = defs.align_directives.get(util::ItemRef::new(0)).align_size;
    if kind == 0 {
        if out.ok {
            assert!(v >= 0, "negative alignment accepted");
            assert!(stored as i64 == v, "stored alignment is not the evaluated value");
            assert!(out.resolved == (stored == prev), "Resolved differs from 'stored value unchanged'");
            assert!(!(last && out.resolved && v == 0), "alignment 0 accepted on the final pass");
        } else {
            assert!(v < 0 || (last && v == 0 && prev == 0), "valid alignment rejected");
        }
    } else if out.ok {
        assert!(!(last && out.resolved), "undetermined alignment accepted on the final pass");
    }
    if out.ok && !out.resolved && last { assert!(out.errs > 0, "final pass unresolved without a diagnostic"); }
    std::mem::forget(decls); std::mem::forget(defs); std::mem::forget(report); std::mem::forget(ast);
    (out, stored)
}

/// `#addr v` in a bank with start `start`, unit `unit`, optional size (bits).
pub fn addr_step(kind: u8, v: i64, start: i64, unit: usize, size: Option<usize>, prev: i64, last: bool) -> (StepOut, i64) {
    reset_report_model();
    set_eval(kind, v, None);
    let mut report = diagn::Report::new();
    let decls = empty_decls();
    let mut defs = asm::defs::init();
    defs.bankdefs.define(util::ItemRef::new(0), bank(0, unit, start, size, Some(0), false));
    defs.addr_directives.define(util::ItemRef::new(0), asm::AddrDirective { item_ref: util::ItemRef::new(0), address: BigInt::new(prev, None) });
    let ast = asm::AstDirectiveAddr { header_span: sp(), expr: expr::Expr::Literal(sp(), expr::Value::Bool(false)), item_ref: Some(util::ItemRef::new(0)) };
    let bd = asm::resolver::BankData { cur_position: 0 };
    let ctx = rctx(&bd, 0, false, last);
    let opts = asm::AssemblyOptions::new();
    let mut fs = NoFs;
    let r = asm::resolver::verif_hooks::resolve_addr(&mut report, &opts, &mut fs, &ast, &decls, &mut defs, &ctx);
    let out = finish(&r, &report);
    let stored = defs.addr_directives.get(util::ItemRef::new(0)).address.maybe_into::<i64>().unwrap();
    if kind == 0 {
        assert!(stored == v, "stored address is not the evaluated value");
        let delta = (v as i128 - start as i128) * unit as i128;
        let in_bank = v >= start && match size { Some(s) => delta < s as i128, None => true };
        if out.ok {
            assert!(out.resolved == (v == prev), "Resolved differs from 'stored value unchanged'");
            if last && out.resolved { assert!(in_bank, "address outside the bank accepted on the final pass"); }
        } else {
            assert!(last && v == prev && !in_bank, "address inside the bank rejected");
        }
    } else if out.ok {
        assert!(!(last && out.resolved), "undetermined address accepted on the final pass");
    }
    if out.ok && !out.resolved && last { assert!(out.errs > 0, "final pass unresolved without a diagnostic"); }
    std::mem::forget(decls); std::mem::forget(defs); std::mem::forget(report); std::mem::forget(ast);
    (out, stored)
}


// ---------------------------------------------------------------- instruction step

/// Builds the definitions for one instruction with `k` argument-less matches (rules 0..k of one
/// rule block) whose productions are evaluated by the stubbed evaluator.
pub fn instr_defs(k: usize, prev: i64, prev_size: usize, statically_known: bool) -> (asm::ItemDecls, asm::ItemDefs) {
    let mut decls = empty_decls();
    decls.ruledefs.verif_push_decl("r", 0, util::SymbolContext::new_global());
    let mut defs = asm::defs::init();
    defs.bankdefs.define(util::ItemRef::new(0), bank(0, 8, 0, None, Some(0), false));
    let mut rules = Vec::new();
    let mut matches = asm::InstructionMatches::new();
    let mut i = 0;
    while i < 2 {
        if i < k {
            rules.push(asm::Rule { pattern_span: sp(), pattern: Vec::new(), exact_part_count: 0, parameters: Vec::new(), expr: expr::Expr::Literal(sp(), expr::Value::Bool(false)) });
            matches.push(asm::InstructionMatch { ruledef_ref: util::ItemRef::new(0), rule_ref: util::ItemRef::new(i), args: Vec::new(), exact_part_count: 0, encoding_statically_known: statically_known, encoding_size: 0, encoding: asm::InstructionMatchResolution::Unresolved });
        }
        i += 1;
    }
    defs.ruledefs.define(util::ItemRef::new(0), asm::Ruledef { item_ref: util::ItemRef::new(0), is_subruledef: false, rules });
    defs.instructions.define(util::ItemRef::new(0), asm::Instruction { item_ref: util::ItemRef::new(0), matches, encoding_statically_known: statically_known, encoding: BigInt::new(prev, Some(prev_size)), resolved: false });
    (decls, defs)
}

pub struct InstrOut {
    pub ok: bool,
    pub resolved: bool,
    pub errs: usize,
    pub stored: i64,
    pub stored_size: Option<usize>,
    pub flag: bool,
}
pub fn instr_step(decls: &asm::ItemDecls, defs: &mut asm::ItemDefs, first: bool, last: bool, optimize: bool) -> InstrOut {
    reset_report_model();
    let mut report = diagn::Report::new();
    let ast = asm::AstInstruction { span: sp(), src: String::from("i"), item_ref: Some(util::ItemRef::new(0)) };
    let bd = asm::resolver::BankData { cur_position: 0 };
    let ctx = rctx(&bd, 0, first, last);
    let mut opts = asm::AssemblyOptions::new();
    opts.optimize_statically_known = optimize;
    let mut fs = NoFs;
    let r = asm::resolver::verif_hooks::resolve_instruction(&mut report, &opts, &mut fs, &ast, decls, defs, &ctx);
    let o = finish(&r, &report);
    let ins = defs.instructions.get(util::ItemRef::new(0));
    let out = InstrOut { ok: o.ok, resolved: o.resolved, errs: o.errs, stored: ins.encoding.maybe_into::<i64>().unwrap(), stored_size: ins.encoding.size, flag: ins.resolved };
    std::mem::forget(report); std::mem::forget(ast);
    out
}
