//! Resolver *step* harnesses shared by C01/C02/C03/C04/C08/C09: one call of a real
//! per-item resolver function from an arbitrary previous state, with the expression
//! evaluator replaced by a contract stub that returns a harness-chosen result.
use crate::model::*;
use customasm::util::BigInt;
use customasm::*;

// result of the stubbed evaluator
pub static mut EV_KIND: u8 = 0; // 0 Integer, 1 Unknown, 2 FailedConstraint, 3 Err (+error), 4 Bool
pub static mut EV_VAL: i64 = 0;
pub static mut EV_SIZE: Option<usize> = None;
pub static mut EV_CALLS: usize = 0;
pub static mut EV_SAW_GUESS: bool = false;

/// Contract stub for asm::resolver::eval::eval: returns the harness-chosen value; the
/// Err outcome records an error first (the evaluator's own contract).
pub fn st_eval(report: &mut diagn::Report, _opts: &asm::AssemblyOptions, _fs: &mut dyn util::FileServer, _decls: &asm::ItemDecls, _defs: &asm::ItemDefs, ctx: &asm::ResolverContext, _ectx: &mut expr::EvalContext, _e: &expr::Expr) -> Result<expr::Value, ()> {
    unsafe {
        EV_CALLS += 1;
        match EV_KIND {
            0 => Ok(expr::Value::make_integer(BigInt::new(EV_VAL, EV_SIZE))),
            1 => {
                // the real evaluator yields Unknown only when it may guess
                if !ctx.can_guess() { report.error("unknown"); return Err(()); }
                Ok(expr::Value::Unknown)
            }
            2 => Ok(expr::Value::FailedConstraint(diagn::Message::error("constraint"))),
            4 => Ok(expr::Value::Bool(EV_VAL != 0)),
            _ => {
                report.error("eval failed");
                Err(())
            }
        }
    }
}
pub fn set_eval(kind: u8, val: i64, size: Option<usize>) {
    unsafe {
        EV_KIND = kind;
        EV_VAL = val;
        EV_SIZE = size;
        EV_CALLS = 0;
    }
}

/// Attaches the evaluator stub and the slice contract on top of the Report model.
#[macro_export]
macro_rules! step {
    ($(#[$m:meta])* fn $name:ident() $body:block) => {
        modelled! {
            #[kani::stub(customasm::asm::resolver::eval::eval, crate::steps::st_eval)]
            #[kani::stub(customasm::util::BigInt::slice, crate::model::st_slice)]
            $(#[$m])*
            fn $name() $body
        }
    };
}

/// low `n` bits of v as an unsigned number
pub fn low_bits(v: i64, n: usize) -> u64 {
    if n >= 64 { v as u64 } else { (v as u64) & ((1u64 << n) - 1) }
}

/// `#dN` data element step. Arbitrary previous stored encoding (value, width N), arbitrary
/// evaluation result. Checks acceptance range, stored bits, Resolved => unchanged, contracts.
pub fn data_element_step(n: usize, v: i64, vsize: Option<usize>, kind: u8, first: bool, last: bool, statically_known: bool, optimize: bool, prev: i64) -> (bool, bool, u64) {
    reset_report_model();
    set_eval(kind, v, vsize);
    let mut report = diagn::Report::new();
    let decls = empty_decls();
    let mut defs = asm::defs::init();
    defs.bankdefs.define(util::ItemRef::new(0), bank(0, 8, 0, None, Some(0), false));
    defs.data_elems.define(util::ItemRef::new(0), asm::DataElement {
        item_ref: util::ItemRef::new(0), position_within_bank: None,
        encoding_statically_known: statically_known,
        encoding: BigInt::new(prev, Some(n)), resolved: false });
    let ast = asm::AstDirectiveData { header_span: sp(), elem_size: Some(n),
        elems: vec![expr::Expr::Literal(sp(), expr::Value::Bool(false))], item_refs: vec![util::ItemRef::new(0)] };
    let bd = asm::resolver::BankData { cur_position: 0 };
    let ctx = rctx(&bd, 0, first, last);
    let mut opts = asm::AssemblyOptions::new();
    opts.optimize_statically_known = optimize;
    let mut fs = NoFs;
    let r = asm::resolver::verif_hooks::resolve_data_element(&mut report, &opts, &mut fs, &ast, 0, &decls, &mut defs, &ctx);
    let must_decide = last || statically_known;
    // representable in N bits, signed or unsigned; a sized value must not be wider than N
    let fits = match vsize {
        None => n >= 1 && v >= -(1i64 << (n - 1)) && v < (1i64 << n) || (n == 0 && false),
        Some(s) => s <= n,
    };
    let elem = defs.data_elems.get(util::ItemRef::new(0));
    let mut stored: u64 = 0;
    let resolved_ok = matches!(r, Ok(asm::ResolutionState::Resolved));
    match r {
        Ok(ref state) => {
            assert!(errs(&report) == 0 || (last && !resolved_ok), "Ok with an error recorded on a pass that is not a failed final pass");
            if kind == 0 {
                if must_decide { assert!(fits, "value that does not fit the directive width was accepted (truncated)"); }
                assert!(elem.encoding.size == Some(n), "stored encoding does not have the directive width");
                // stored value = low N bits of v
                stored = match elem.encoding.maybe_into::<u64>() { Some(x) => x, None => { assert!(false, "stored encoding is negative or too wide"); 0 } };
                assert!(stored == low_bits(v, n), "stored bits are not the low N bits of the value");
                let same = prev as u64 == low_bits(v, n);
                if resolved_ok && !elem.resolved { assert!(same, "Resolved although the stored encoding changed in this pass"); }
                if !resolved_ok { assert!(!same, "Unresolved although nothing changed"); }
                if !resolved_ok && last { assert!(errs(&report) > 0, "final pass unresolved without a diagnostic"); }
                if elem.resolved { assert!(statically_known && first && optimize, "resolved flag set although the value is not statically known on the first pass"); }
            } else {
                // Unknown / FailedConstraint on a guessing pass: keeps the previous encoding, not resolved
                assert!(!must_decide, "undetermined value accepted on a deciding pass");
                assert!(!elem.resolved);
            }
        }
        Err(()) => {
            assert!(errs(&report) > 0, "Err without an error diagnostic");
            if kind == 0 { assert!(must_decide && !fits, "in-range value rejected"); }
        }
    }
    let is_res_flag = elem.resolved;
    std::mem::forget(decls);
    std::mem::forget(defs);
    std::mem::forget(report);
    std::mem::forget(ast);
    (resolved_ok, is_res_flag, stored)
}
