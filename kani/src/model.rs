//! The trusted stub set (DESIGN.md section 3.1). Everything in this file is part of
//! the claim of every harness that uses it.
use customasm::util::BigInt;
use customasm::*;

// ------------------------------------------------------------------ cost-only stubs

/// num-bigint selects these intrinsics by target_arch; Kani does not model them.
/// Bodies are num-bigint's own portable fallback (bit-exact).
pub unsafe fn adc_stub(carry: u8, lhs: u64, rhs: u64, out: &mut u64) -> u8 {
    let (a, b) = lhs.overflowing_add(rhs);
    let (c, d) = a.overflowing_add(carry as u64);
    *out = c;
    u8::from(b || d)
}
pub unsafe fn sbb_stub(borrow: u8, lhs: u64, rhs: u64, out: &mut u64) -> u8 {
    let (a, b) = lhs.overflowing_sub(rhs);
    let (c, d) = a.overflowing_sub(borrow as u64);
    *out = c;
    u8::from(b || d)
}
/// Message text is irrelevant to every claim that uses this stub.
pub fn fmt_stub(_args: std::fmt::Arguments<'_>) -> String {
    // not String::new(): a const-evaluated empty Vec returned from a stub body reads back
    // with capacity 1 in Kani 0.68 (spurious dealloc failure); a run-time allocation does not
    String::from("?")
}
/// getrandom is not available to Kani: hash keys fixed to (0,0) - hash order is not explored.
pub fn rs_stub() -> std::hash::RandomState {
    unsafe { std::mem::transmute::<[u64; 2], std::hash::RandomState>([0, 0]) }
}

/// `String::push` restricted to ASCII (the raw formatters only push digits): appending one byte.
/// Pushing a symbolic `char` through the real UTF-8 encoder costs 100 s and gigabytes per character.
pub fn st_string_push_ascii(s: &mut String, c: char) {
    assert!(c.is_ascii(), "string-push model: non-ASCII character pushed");
    unsafe { s.as_mut_vec().push(c as u8); }
}

// ------------------------------------------------------------------ Report model

/// All mutable model state lives in structs that start with a non-zero magic word:
/// Kani 0.68 gives a global the identity of its initial *byte content*, so a
/// zero-initialised `static mut usize` (or a `false` bool) shares storage with every
/// constant of the same bytes - incrementing a plain counter turned `Vec::new()`'s
/// capacity constant into 1 (spurious allocator and invalid-pointer failures).
pub struct ReportModel {
    pub magic: u64,
    pub msgs: usize,  // messages recorded (any kind)
    pub errs: usize,  // messages whose outermost kind is Error
    pub depth: usize, // parent stack depth
    pub pkind: [u8; 8], // kind of each parent (0 error, 1 warning, 2 note)
    pub caps: [usize; 4],
    pub capd: usize,
}
pub static mut RM: ReportModel = ReportModel { magic: 0x524d_5eed_c0de_0001, msgs: 0, errs: 0, depth: 0, pkind: [0; 8], caps: [0; 4], capd: 0 };

pub fn reset_report_model() {
    unsafe {
        RM.msgs = 0;
        RM.errs = 0;
        RM.depth = 0;
        RM.capd = 0;
    }
}
fn kind_code(k: diagn::MessageKind) -> u8 {
    match k {
        diagn::MessageKind::Error => 0,
        diagn::MessageKind::Warning => 1,
        diagn::MessageKind::Note => 2,
    }
}
fn record(kind: u8, from: usize) {
    unsafe {
        RM.msgs += 1;
        let top = if RM.depth > from { RM.pkind[from] } else { kind };
        if top == 0 {
            RM.errs += 1;
        }
    }
}
fn push_kind(k: u8) {
    unsafe {
        assert!(RM.depth < 8, "report model: parent stack deeper than 8");
        RM.pkind[RM.depth] = k;
        RM.depth += 1;
    }
}
/// Number of messages recorded, in the model (stubbed runs) plus in the real report
/// (native replay, where no stub is applied).
pub fn msgs(r: &diagn::Report) -> usize {
    unsafe { RM.msgs + r.verif_messages().len() }
}
pub fn errs(r: &diagn::Report) -> usize {
    let mut n = unsafe { RM.errs };
    for m in r.verif_messages() {
        if let diagn::MessageKind::Error = m.kind {
            n += 1;
        }
    }
    n
}

pub fn st_message(_r: &mut diagn::Report, msg: diagn::Message) {
    record(kind_code(msg.kind), 0);
    std::mem::forget(msg);
}
pub fn st_message_dedup(_r: &mut diagn::Report, msg: diagn::Message) {
    record(kind_code(msg.kind), 0);
    std::mem::forget(msg);
}
pub fn st_push_multiple(_r: &mut diagn::Report, msgs: Vec<diagn::Message>) {
    unsafe {
        let from = if RM.capd > 0 { RM.caps[RM.capd - 1] } else { 0 };
        if RM.depth > from {
            record(0, from);
        } else {
            for m in &msgs {
                record(kind_code(m.kind), from);
            }
        }
    }
    std::mem::forget(msgs);
}
pub fn st_error<S: Into<String>>(_r: &mut diagn::Report, _d: S) {
    record(0, 0);
    std::mem::forget(_d);
}
pub fn st_error_span<S: Into<String>>(_r: &mut diagn::Report, _d: S, _s: diagn::Span) {
    record(0, 0);
    std::mem::forget(_d);
}
pub fn st_warning<S: Into<String>>(_r: &mut diagn::Report, _d: S) {
    record(1, 0);
    std::mem::forget(_d);
}
pub fn st_warning_span<S: Into<String>>(_r: &mut diagn::Report, _d: S, _s: diagn::Span) {
    record(1, 0);
    std::mem::forget(_d);
}
pub fn st_note<S: Into<String>>(_r: &mut diagn::Report, _d: S) {
    record(2, 0);
    std::mem::forget(_d);
}
pub fn st_note_span<S: Into<String>>(_r: &mut diagn::Report, _d: S, _s: diagn::Span) {
    record(2, 0);
    std::mem::forget(_d);
}
pub fn st_push_parent<S: Into<String>>(_r: &mut diagn::Report, _d: S, _s: diagn::Span) {
    push_kind(0);
    std::mem::forget(_d);
}
pub fn st_push_parent_note<S: Into<String>>(_r: &mut diagn::Report, _d: S, _s: diagn::Span) {
    push_kind(2);
    std::mem::forget(_d);
}
pub fn st_pop_parent(_r: &mut diagn::Report) {
    unsafe {
        if RM.depth == 0 {
            panic!("pop_parent on empty parent stack");
        }
        RM.depth -= 1;
    }
}
pub fn st_push_parent_cap(_r: &mut diagn::Report) {
    unsafe {
        assert!(RM.capd < 4, "report model: cap stack deeper than 4");
        RM.caps[RM.capd] = RM.depth;
        RM.capd += 1;
    }
}
pub fn st_pop_parent_cap(_r: &mut diagn::Report) {
    unsafe {
        if RM.capd == 0 {
            panic!("pop_parent_cap on empty cap stack");
        }
        RM.capd -= 1;
    }
}
pub fn st_wrap(_r: &diagn::Report, msg: diagn::Message) -> diagn::Message {
    msg
}
pub fn st_has_errors(_r: &diagn::Report) -> bool {
    unsafe { RM.msgs != 0 }
}
pub fn st_len(_r: &diagn::Report) -> usize {
    unsafe { RM.msgs }
}
pub fn st_stop_at_errors(_r: &diagn::Report) -> Result<(), ()> {
    unsafe {
        if RM.errs != 0 {
            Err(())
        } else {
            Ok(())
        }
    }
}

/// Attaches the cost-only stubs and the Report model to a harness.
#[macro_export]
macro_rules! modelled {
    ($(#[$m:meta])* fn $name:ident() $body:block) => {
        #[kani::proof]
        #[kani::stub(core::arch::x86_64::_addcarry_u64, crate::model::adc_stub)]
        #[kani::stub(core::arch::x86_64::_subborrow_u64, crate::model::sbb_stub)]
        #[kani::stub(alloc::fmt::format, crate::model::fmt_stub)]
        #[kani::stub(std::hash::RandomState::new, crate::model::rs_stub)]
        #[kani::stub(customasm::diagn::Report::message, crate::model::st_message)]
        #[kani::stub(customasm::diagn::Report::message_with_parents_dedup, crate::model::st_message_dedup)]
        #[kani::stub(customasm::diagn::Report::push_multiple, crate::model::st_push_multiple)]
        #[kani::stub(customasm::diagn::Report::error, crate::model::st_error)]
        #[kani::stub(customasm::diagn::Report::error_span, crate::model::st_error_span)]
        #[kani::stub(customasm::diagn::Report::warning, crate::model::st_warning)]
        #[kani::stub(customasm::diagn::Report::warning_span, crate::model::st_warning_span)]
        #[kani::stub(customasm::diagn::Report::note, crate::model::st_note)]
        #[kani::stub(customasm::diagn::Report::note_span, crate::model::st_note_span)]
        #[kani::stub(customasm::diagn::Report::push_parent, crate::model::st_push_parent)]
        #[kani::stub(customasm::diagn::Report::push_parent_note, crate::model::st_push_parent_note)]
        #[kani::stub(customasm::diagn::Report::push_parent_short_note, crate::model::st_push_parent_note)]
        #[kani::stub(customasm::diagn::Report::pop_parent, crate::model::st_pop_parent)]
        #[kani::stub(customasm::diagn::Report::push_parent_cap, crate::model::st_push_parent_cap)]
        #[kani::stub(customasm::diagn::Report::pop_parent_cap, crate::model::st_pop_parent_cap)]
        #[kani::stub(customasm::diagn::Report::wrap_in_parents, crate::model::st_wrap)]
        #[kani::stub(customasm::diagn::Report::wrap_in_parents_capped, crate::model::st_wrap)]
        #[kani::stub(customasm::diagn::Report::wrap_in_parents_dedup, crate::model::st_wrap)]
        #[kani::stub(customasm::diagn::Report::has_errors, crate::model::st_has_errors)]
        #[kani::stub(customasm::diagn::Report::has_messages, crate::model::st_has_errors)]
        #[kani::stub(customasm::diagn::Report::len, crate::model::st_len)]
        #[kani::stub(customasm::diagn::Report::stop_at_errors, crate::model::st_stop_at_errors)]
        $(#[$m])*
        fn $name() $body
    };
}

// ------------------------------------------------------------------ BitStore model

/// customasm's wrappers util::BigInt::{get_bit,set_bit} over num-bigint cost 53 GB for
/// a 4-bit write through the real num-bigint. Model of the *bit store behind the two
/// wrappers*: `set_bit` writes into one zero-initialised 128-bit destination array;
/// `get_bit` reads bit `index` of the object's real value (two's complement, value must
/// fit i64) while `READ_DST` is false, and reads the destination array while it is true
/// (the harness flips it between "fill" and "read back" phases). No object identity is
/// used: casting `&BigInt` to an address makes CBMC mis-model the dangling pointers of
/// empty `Vec<u8>`s elsewhere in the program (spurious invalid-pointer failures).
pub struct BitStore {
    pub magic: u64,
    pub dst: [bool; 128],
    pub read_dst: bool,
}
pub static mut BS: BitStore = BitStore { magic: 0x4253_5eed_c0de_0002, dst: [false; 128], read_dst: false };

pub fn reset_bitstore() {
    unsafe {
        BS.dst = [false; 128];
        BS.read_dst = false;
    }
}
pub fn read_dst(on: bool) {
    unsafe { BS.read_dst = on; }
}
pub fn st_get_bit(this: &BigInt, index: usize) -> bool {
    unsafe {
        if BS.read_dst {
            return if index < 128 { BS.dst[index] } else { false };
        }
    }
    match this.maybe_into::<i64>() {
        Some(v) => {
            if index < 63 {
                (v >> index) & 1 == 1
            } else {
                v < 0
            }
        }
        None => {
            kani::assume(false);
            false
        }
    }
}
pub fn st_set_bit(_this: &mut BigInt, index: usize, value: bool) {
    unsafe {
        assert!(index < 128, "bitstore model: write beyond 128 bits");
        BS.dst[index] = value;
    }
}
/// Bit `index` of the destination array.
pub fn dst_bit(index: usize) -> bool {
    unsafe { BS.dst[index] }
}

/// Attaches the BitStore model in addition to `modelled!`.
#[macro_export]
macro_rules! modelled_bits {
    ($(#[$m:meta])* fn $name:ident() $body:block) => {
        modelled! {
            #[kani::stub(customasm::util::BigInt::get_bit, crate::model::st_get_bit)]
            #[kani::stub(customasm::util::BigInt::set_bit, crate::model::st_set_bit)]
            $(#[$m])*
            fn $name() $body
        }
    };
}

// ------------------------------------------------------------------ Arith model

fn to_i64(x: &BigInt) -> i64 {
    match x.maybe_into::<i64>() {
        Some(v) => v,
        None => {
            kani::assume(false);
            0
        }
    }
}
fn small(v: i64) -> bool {
    v > -(1i64 << 60) && v < (1i64 << 60)
}
pub fn st_add(a: &BigInt, _r: &mut diagn::Report, _s: diagn::Span, b: &BigInt) -> Result<BigInt, ()> {
    let (x, y) = (to_i64(a), to_i64(b));
    kani::assume(small(x) && small(y));
    Ok(BigInt::new(x + y, None))
}
pub fn st_sub(a: &BigInt, _r: &mut diagn::Report, _s: diagn::Span, b: &BigInt) -> Result<BigInt, ()> {
    let (x, y) = (to_i64(a), to_i64(b));
    kani::assume(small(x) && small(y));
    Ok(BigInt::new(x - y, None))
}
pub fn st_mul(a: &BigInt, _r: &mut diagn::Report, _s: diagn::Span, b: &BigInt) -> Result<BigInt, ()> {
    let (x, y) = (to_i64(a), to_i64(b));
    kani::assume(x > -(1i64 << 30) && x < (1i64 << 30) && y > -(1i64 << 30) && y < (1i64 << 30));
    Ok(BigInt::new(x * y, None))
}
pub fn st_mod(a: &BigInt, r: &mut diagn::Report, _s: diagn::Span, b: &BigInt) -> Result<BigInt, ()> {
    let (x, y) = (to_i64(a), to_i64(b));
    kani::assume(small(x) && small(y));
    if y == 0 {
        record(0, 0);
        return Err(());
    }
    Ok(BigInt::new(x % y, None))
}

/// Contract of util::BigInt::slice(left, right) over machine integers: bits right..left-1
/// of the two's-complement value as a non-negative number of size left-right. The real
/// slice is checked against this contract in c05 (BitStore model); step harnesses use the
/// contract so that the sliced result keeps a real value that later comparisons can read.
pub fn st_slice(this: &BigInt, left: usize, right: usize) -> BigInt {
    if left < right {
        panic!("invalid slice range");
    }
    let v = to_i64(this);
    let w = left - right;
    kani::assume(w <= 62 && right <= 62);
    let r = ((v >> right) as u64) & ((1u64 << w) - 1);
    BigInt::new(r, Some(w))
}

// ------------------------------------------------------------------ environment

/// A file server with no files: every access fails after recording an error.
pub struct NoFs;
impl util::FileServer for NoFs {
    fn get_handle(&mut self, r: &mut diagn::Report, _s: Option<diagn::Span>, _f: &str) -> Result<usize, ()> {
        r.error("file not found");
        Err(())
    }
    fn get_filename(&self, _h: usize) -> &str {
        ""
    }
    fn get_bytes(&self, r: &mut diagn::Report, _s: Option<diagn::Span>, _h: usize) -> Result<Vec<u8>, ()> {
        r.error("file not found");
        Err(())
    }
    fn write_bytes(&mut self, r: &mut diagn::Report, _s: Option<diagn::Span>, _f: &str, _d: &Vec<u8>) -> Result<(), ()> {
        r.error("cannot write");
        Err(())
    }
}

pub fn empty_decls() -> asm::ItemDecls {
    asm::ItemDecls {
        bankdefs: util::SymbolManager::new("bank"),
        ruledefs: util::SymbolManager::new("ruledef"),
        symbols: util::SymbolManager::new("symbol"),
    }
}
pub fn sp() -> diagn::Span {
    diagn::Span::new_dummy()
}
pub fn bank(i: usize, unit: usize, start: i64, size: Option<usize>, outp: Option<usize>, fill: bool) -> asm::Bankdef {
    asm::Bankdef {
        item_ref: util::ItemRef::new(i),
        addr_unit: unit,
        label_align: None,
        addr_start: BigInt::new(start, None),
        size,
        output_offset: outp,
        fill,
    }
}
pub static GLOBAL_CTX: util::SymbolContext = util::SymbolContext::new_global();
pub fn rctx<'a>(bank_data: &'a asm::resolver::BankData, bank_ref: usize, first: bool, last: bool) -> asm::ResolverContext<'a, 'static, 'static> {
    asm::ResolverContext {
        node: asm::ResolverNode::None,
        is_first_iteration: first,
        is_last_iteration: last,
        file_handle_ctx: Some(0),
        symbol_ctx: &GLOBAL_CTX,
        bank_ref: util::ItemRef::new(bank_ref),
        bank_data,
    }
}
