//! C02 - a successful result is a genuine fixed point.
use crate::model::*;
use customasm::util::BigInt;
use customasm::*;

static mut CALLS: usize = 0;
static mut LAST_IS_LAST: bool = false;
static mut LAST_RESOLVED: bool = false;
static mut FIRST_OK: bool = true;
static mut INDEX_OK: bool = true;

/// Contract stub for resolver::resolve_once: any of Resolved / Unresolved / Err per call;
/// Err records an error (phase contract, checked for the reachable steps in C03-c).
pub fn resolve_once_nd(
    report: &mut diagn::Report, _opts: &asm::AssemblyOptions, _fs: &mut dyn util::FileServer,
    _ast: &asm::AstTopLevel, _decls: &asm::ItemDecls, _defs: &mut asm::ItemDefs,
    iteration_index: usize, is_first_iteration: bool, is_last_iteration: bool,
) -> Result<asm::ResolutionState, ()> {
    unsafe {
        CALLS += 1;
        if (CALLS == 1) != is_first_iteration { FIRST_OK = false; }
        if iteration_index != CALLS { INDEX_OK = false; }
        LAST_IS_LAST = is_last_iteration;
        let r: u8 = kani::any();
        if r == 0 { LAST_RESOLVED = false; report.error("nd"); return Err(()); }
        if r == 1 { LAST_RESOLVED = true; return Ok(asm::ResolutionState::Resolved); }
        LAST_RESOLVED = false;
        Ok(asm::ResolutionState::Unresolved)
    }
}

fn iter_protocol(maxb: usize) {
    reset_report_model();
    let mut report = diagn::Report::new();
    let opts = asm::AssemblyOptions::new();
    let mut fs = NoFs;
    let ast = asm::AstTopLevel { nodes: Vec::new() };
    let decls = empty_decls();
    let mut defs = asm::defs::init();
    let max: usize = kani::any();
    kani::assume(max >= 1 && max <= maxb);
    let r = asm::resolver::resolve_iteratively(&mut report, &opts, &mut fs, &ast, &decls, &mut defs, max);
    unsafe {
        assert!(FIRST_OK, "is_first_iteration set on a pass other than the first");
        assert!(INDEX_OK, "iteration index does not count passes");
        assert!(CALLS <= max + 1, "more passes than budget + 1 confirmation pass");
        match r {
            Ok(n) => {
                assert!(LAST_IS_LAST, "success although the last pass was allowed to guess");
                assert!(LAST_RESOLVED, "success although the last pass was not Resolved");
                assert!(n >= 1 && n <= max, "reported pass count outside 1..=budget");
                assert!(CALLS == n || CALLS == n + 1);
                assert!(errs(&report) == 0);
                kani::cover!(n == max && CALLS == n, "converged exactly on the budget's last pass");
                kani::cover!(n < max && CALLS == n + 1, "converged early and confirmed by a no-guess pass");
            }
            Err(()) => {
                kani::cover!(CALLS < max && LAST_IS_LAST && errs(&report) == 0, "early convergence refuted by the no-guess confirmation pass");
                kani::cover!(CALLS == max && errs(&report) == 0, "budget exhausted without convergence");
                kani::cover!(errs(&report) > 0, "a pass failed with an error");
            }
        }
    }
    std::mem::forget(decls);
    std::mem::forget(defs);
    std::mem::forget(report);
}

modelled! {
    #[kani::unwind(10)]
    #[kani::stub(customasm::asm::resolver::resolve_once, resolve_once_nd)]
    fn c02_a_iter_protocol() { iter_protocol(8) }
}
