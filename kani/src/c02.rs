//! C02 - a successful result is a genuine fixed point.
use crate::model::*;
use customasm::util::BigInt;
use customasm::*;

// pass log (struct with a magic word: see model.rs)
struct PassLog { magic: u64, calls: usize, last_is_last: bool, last_resolved: bool, first_ok: bool, index_ok: bool }
static mut PL: PassLog = PassLog { magic: 0x504c_5eed_c0de_0004, calls: 0, last_is_last: false, last_resolved: false, first_ok: true, index_ok: true };

/// Contract stub for resolver::resolve_once: any of Resolved / Unresolved / Err per call;
/// Err records an error (phase contract, checked for the reachable steps in C03-c).
pub fn resolve_once_nd(
    report: &mut diagn::Report, _opts: &asm::AssemblyOptions, _fs: &mut dyn util::FileServer,
    _ast: &asm::AstTopLevel, _decls: &asm::ItemDecls, _defs: &mut asm::ItemDefs,
    iteration_index: usize, is_first_iteration: bool, is_last_iteration: bool,
) -> Result<asm::ResolutionState, ()> {
    unsafe {
        PL.calls += 1;
        if (PL.calls == 1) != is_first_iteration { PL.first_ok = false; }
        if iteration_index != PL.calls { PL.index_ok = false; }
        PL.last_is_last = is_last_iteration;
        let r: u8 = kani::any();
        if r == 0 { PL.last_resolved = false; report.error("nd"); return Err(()); }
        if r == 1 { PL.last_resolved = true; return Ok(asm::ResolutionState::Resolved); }
        PL.last_resolved = false;
        Ok(asm::ResolutionState::Unresolved)
    }
}

pub(crate) fn iter_protocol(maxb: usize) {
    reset_report_model();
    let mut report = diagn::Report::new();
    let opts = asm::AssemblyOptions::new();
    let mut fs = NoFs;
    let ast = asm::AstTopLevel { nodes: Vec::new() };
    let decls = empty_decls();
    let mut defs = asm::defs::init();
    let max: usize = kani::any();
    kani::assume(max >= 1 && max <= maxb);
    let r = asm::resolver::resolve_iteratively(&mut report, &opts, &mut fs, &ast, &decls, &mut defs, max);
    unsafe {
        assert!(PL.first_ok, "is_first_iteration set on a pass other than the first");
        match r {
            Ok(n) => {
                assert!(PL.last_is_last, "success although the last pass was allowed to guess");
                assert!(PL.last_resolved, "success although the last pass was not Resolved");
                assert!(n >= 1 && n <= max, "reported pass count outside 1..=budget");
                assert!(errs(&report) == 0);
                kani::cover!(n == max && PL.calls == n, "converged exactly on the budget's last pass");
                kani::cover!(n < max && PL.calls == n + 1, "converged early and confirmed by a no-guess pass");
            }
            Err(()) => {
                kani::cover!(PL.calls < max && PL.last_is_last && errs(&report) == 0, "early convergence refuted by the no-guess confirmation pass");
                kani::cover!(PL.calls == max && errs(&report) == 0, "budget exhausted without convergence");
                kani::cover!(errs(&report) > 0, "a pass failed with an error");
            }
        }
    }
    std::mem::forget(decls);
    std::mem::forget(defs);
    std::mem::forget(report);
}

modelled! {
    #[kani::unwind(10)]
    #[kani::stub(customasm::asm::resolver::resolve_once, resolve_once_nd)]
    fn c02_a_iter_protocol() { iter_protocol(8) }
}

// ---------------------------------------------------------------- C02-b item steps
use crate::steps::*;

fn any_unit() -> usize {
    let k: usize = kani::any();
    kani::assume(k < 5);
    [1usize, 3, 8, 16, 32][k]
}

// ---- #res
step! { int;
    #[kani::unwind(2)]
    fn c02_b_res_int() {
        let v: i64 = kani::any();
        let unit = any_unit();
        let prev: usize = kani::any();
        let last: bool = kani::any();
        pre_int(v, None);
        let (o, stored) = res_step(0, v, unit, prev, last);
        kani::cover!(o.resolved && stored > 0, "reservation confirmed unchanged");
        kani::cover!(o.ok && !o.resolved && !last, "reservation changed on a guessing pass");
        kani::cover!(o.ok && !o.resolved && last, "reservation changed on the final pass");
        kani::cover!(!o.ok, "reservation beyond u32 rejected");
    }
}
macro_rules! undecided {
    ($kind:ident, $code:expr, $name:ident, $call:expr) => {
        step! { $kind;
            #[kani::unwind(2)]
            #[kani::stub(customasm::util::BigInt::checked_sub, crate::model::st_sub)]
            #[kani::stub(customasm::util::BigInt::checked_mul, crate::model::st_mul)]
            fn $name() {
                let last: bool = kani::any();
                // the real evaluator yields Unknown only on a pass that may guess
                if $code == 1 { kani::assume(!last); pre_unknown(); } else if $code == 2 { pre_failed(); } else { pre_err(); }
                let o: StepOut = ($call)($code, last);
                kani::cover!(!o.ok || !o.resolved, "undetermined value does not count as resolved");
            }
        }
    };
}
undecided!(unknown, 1, c02_b_res_unknown, |k, last| res_step(k, 0, 8, kani::any(), last).0);
undecided!(failed, 2, c02_b_res_failed, |k, last| res_step(k, 0, 8, kani::any(), last).0);
undecided!(err, 3, c02_b_res_err, |k, last| res_step(k, 0, 8, kani::any(), last).0);

// ---- #align
step! { int;
    #[kani::unwind(2)]
    fn c02_b_align_int() {
        let v: i64 = kani::any();
        let prev: usize = kani::any();
        let last: bool = kani::any();
        pre_int(v, None);
        let (o, stored) = align_step(0, v, prev, last);
        kani::cover!(o.resolved && stored > 1 && last, "alignment confirmed on the final pass");
        kani::cover!(!o.ok && v == 0, "alignment 0 rejected");
        kani::cover!(o.ok && !o.resolved, "alignment changed");
    }
}
undecided!(unknown, 1, c02_b_align_unknown, |k, last| align_step(k, 0, kani::any(), last).0);
undecided!(failed, 2, c02_b_align_failed, |k, last| align_step(k, 0, kani::any(), last).0);
undecided!(err, 3, c02_b_align_err, |k, last| align_step(k, 0, kani::any(), last).0);

// ---- #addr
step! { int;
    #[kani::unwind(2)]
    #[kani::stub(customasm::util::BigInt::checked_sub, crate::model::st_sub)]
    #[kani::stub(customasm::util::BigInt::checked_mul, crate::model::st_mul)]
    fn c02_b_addr_int() {
        let v: i32 = kani::any();
        let start: i16 = kani::any();
        let unit = any_unit();
        let size: Option<usize> = if kani::any() { let s: usize = kani::any(); kani::assume(s < (1usize << 40)); Some(s) } else { None };
        let prev: i32 = kani::any();
        let last: bool = kani::any();
        pre_int(v as i64, None);
        let (o, _) = addr_step(0, v as i64, start as i64, unit, size, prev as i64, last);
        kani::cover!(o.resolved && last && size.is_some(), "address inside a sized bank confirmed");
        kani::cover!(!o.ok && (v as i64) < start as i64, "address below the bank rejected");
        kani::cover!(!o.ok && (v as i64) > start as i64, "address beyond the bank size rejected");
        kani::cover!(o.ok && !o.resolved, "address changed");
    }
}
undecided!(unknown, 1, c02_b_addr_unknown, |k, last| addr_step(k, 0, 0, 8, None, kani::any::<i32>() as i64, last).0);
undecided!(failed, 2, c02_b_addr_failed, |k, last| addr_step(k, 0, 0, 8, None, kani::any::<i32>() as i64, last).0);
undecided!(err, 3, c02_b_addr_err, |k, last| addr_step(k, 0, 0, 8, None, kani::any::<i32>() as i64, last).0);

// ---- data element
step! { int;
    #[kani::unwind(2)]
    fn c02_b_data_int() {
        // any pass kind, both optimisation settings
        let n: usize = kani::any(); kani::assume(n >= 1 && n <= 8);
        let v: i16 = kani::any();
        let first: bool = kani::any();
        let last: bool = kani::any();
        let sk: bool = kani::any();
        let opt: bool = kani::any();
        let prev: i16 = kani::any(); kani::assume(prev >= 0 && (prev as i64) < (1i64 << n));
        pre_int(v as i64, None);
        let (res, flag, _) = data_element_step(n, v as i64, None, 0, first, last, sk, opt, prev as i64);
        kani::cover!(res && !flag && !last, "unchanged on a guessing pass");
        kani::cover!(flag, "resolved flag set from a statically known first pass");
        kani::cover!(!res && last, "changed on the final pass");
    }
}
macro_rules! undecided_data {
    ($kind:ident, $code:expr, $name:ident) => {
        step! { $kind;
            #[kani::unwind(2)]
            fn $name() {
                let (first, last, sk, opt): (bool, bool, bool, bool) = (kani::any(), kani::any(), kani::any(), kani::any());
                if $code == 1 { kani::assume(!last); pre_unknown(); } else if $code == 2 { pre_failed(); } else { pre_err(); }
                let (res, flag, _) = data_element_step(8, 0, None, $code, first, last, sk, opt, 5);
                assert!(!flag, "undetermined value marked as resolved for good");
                kani::cover!(!res, "undetermined value does not count as resolved");
            }
        }
    };
}
undecided_data!(unknown, 1, c02_b_data_unknown);
undecided_data!(failed, 2, c02_b_data_failed);
undecided_data!(err, 3, c02_b_data_err);


// ---- instruction (argument-less matches; productions through the evaluator stub)
// Values are concrete and sizes symbolic: `InstructionMatchResolution` and `expr::Value` keep their
// discriminant in a niche of the big integer's sign byte, so a symbolic *value* makes every variant's
// clone code (message and string copies of symbolic length) part of the formula (memory cap).
step! { int;
    #[kani::unwind(2)]
    fn c02_b_instr_one_match() {
        // one match resolving to (0x5a, size s): stored encoding is exactly that; Resolved <=> value unchanged
        let s: usize = kani::any(); kani::assume(s >= 8 && s <= 24);
        let ps: usize = kani::any(); kani::assume(ps <= 24);
        let same: bool = kani::any();
        let (first, last, sk, opt): (bool, bool, bool, bool) = (kani::any(), kani::any(), kani::any(), kani::any());
        let (decls, mut defs) = if same { instr_defs(1, 0x5a, ps, sk) } else { instr_defs(1, 0x33, ps, sk) };
        pre_int(0x5a, Some(s));
        let o = instr_step(&decls, &mut defs, first, last, opt);
        assert!(o.ok, "resolvable instruction failed");
        assert!(o.stored == 0x5a && o.stored_size == Some(s), "stored encoding is not the freshly computed one (value and size)");
        if !o.flag { assert!(o.resolved == same, "Resolved differs from 'encoding value unchanged'"); }
        if o.flag { assert!(sk && first && opt, "resolved flag set although the encoding is not statically known on the first pass"); }
        if !o.resolved && last { assert!(o.errs > 0, "final pass unresolved without a diagnostic"); }
        kani::cover!(o.resolved && !o.flag && ps != s, "same value, different size than before");
        kani::cover!(!o.resolved && last, "changed on the final pass");
        kani::cover!(o.flag, "resolved for good on a statically known first pass");
        std::mem::forget(decls); std::mem::forget(defs);
    }
}
step! { int;
    #[kani::unwind(2)]
    fn c02_b_instr_two_matches() {
        // two resolving matches (0x11 of size s0, 0x22 of size s1): the unique smallest is stored;
        // equal sizes are an error on the final pass
        let (s0, s1): (usize, usize) = (kani::any(), kani::any());
        kani::assume(s0 >= 8 && s0 <= 12 && s1 >= 8 && s1 <= 12);
        let last: bool = kani::any();
        let pk: u8 = kani::any(); kani::assume(pk < 3);
        let (decls, mut defs) = if pk == 0 { instr_defs(2, 0x11, 8, false) } else if pk == 1 { instr_defs(2, 0x22, 8, false) } else { instr_defs(2, 0x33, 8, false) };
        let prev: i64 = if pk == 0 { 0x11 } else if pk == 1 { 0x22 } else { 0x33 };
        pre_int(0x11, Some(s0));
        pre2_int(0x22, Some(s1));
        let o = instr_step(&decls, &mut defs, false, last, true);
        assert!(o.ok);
        if s0 == s1 && last {
            assert!(o.errs > 0 && !o.resolved, "two equally small encodings accepted on the final pass");
        } else {
            let (wv, ws) = if s1 < s0 { (0x22, s1) } else { (0x11, s0) };
            assert!(o.stored == wv && o.stored_size == Some(ws), "stored encoding is not the smallest candidate");
            assert!(o.resolved == (prev == wv), "Resolved differs from 'encoding value unchanged'");
        }
        kani::cover!(s1 < s0 && o.resolved, "second, smaller rule selected");
        kani::cover!(s0 == s1 && last, "ambiguity on the final pass");
        kani::cover!(s0 == s1 && !last && o.resolved, "ambiguity tolerated while guessing");
        std::mem::forget(decls); std::mem::forget(defs);
    }
}
step! { failed;
    #[kani::unwind(2)]
    fn c02_b_instr_failed_constraint() {
        // the only match fails its constraint: never resolved; an error on the final pass
        let last: bool = kani::any();
        let (decls, mut defs) = instr_defs(1, 5, 8, false);
        pre_failed();
        let o = instr_step(&decls, &mut defs, false, last, true);
        assert!(o.ok && !o.resolved, "instruction whose only rule fails its constraint counted as resolved");
        assert!(o.stored == 5, "failed match overwrote the stored encoding");
        if last { assert!(o.errs > 0, "final pass without a diagnostic"); }
        kani::cover!(last);
        kani::cover!(!last && o.errs == 0, "silent while guessing");
        std::mem::forget(decls); std::mem::forget(defs);
    }
}
step! { unknown;
    #[kani::unwind(2)]
    fn c02_b_instr_unknown_value() {
        // the only match evaluates to Unknown (possible even on a no-guess pass inside an asm block,
        // where a label of the block is not known yet): never resolved, never a panic, an error on the final pass
        let last: bool = kani::any();
        let (decls, mut defs) = instr_defs(1, 5, 8, false);
        pre_unknown();
        let o = instr_step(&decls, &mut defs, false, last, true);
        assert!(o.ok && !o.resolved, "instruction with an unknown production counted as resolved");
        if last { assert!(o.errs > 0, "final pass without a diagnostic"); }
        kani::cover!(last);
        std::mem::forget(decls); std::mem::forget(defs);
    }
}

modelled! {
    #[kani::unwind(33)]
    #[kani::stub(customasm::asm::resolver::resolve_once, resolve_once_nd)]
    fn c02_a_iter_protocol30() { iter_protocol(30) }
}

// ---------------------------------------------------------------- C02-c: one pass visits every item and merges their states

struct OnceLog { magic: u64, n: usize, kinds: [u8; 12], ret: [u8; 12], first: bool, last: bool, flags_ok: bool }
static mut OL: OnceLog = OnceLog { magic: 0x4f4c_5eed_c0de_0021, n: 0, kinds: [0; 12], ret: [0; 12], first: false, last: false, flags_ok: true };
/// Contract stub shared by the eight per-item steps: logs which step ran with which pass flags and
/// returns Resolved / Unresolved / Err-after-recording-an-error, chosen by the solver.
fn once_step(kind: u8, report: &mut diagn::Report, ctx: &asm::ResolverContext) -> Result<asm::ResolutionState, ()> {
    let c: u8 = kani::any();
    kani::assume(c < 3);
    unsafe {
        if OL.n < 12 {
            OL.kinds[OL.n] = kind;
            OL.ret[OL.n] = c;
            OL.n += 1;
        }
        if ctx.is_first_iteration != OL.first || ctx.is_last_iteration != OL.last {
            OL.flags_ok = false;
        }
    }
    match c {
        0 => Ok(asm::ResolutionState::Resolved),
        1 => Ok(asm::ResolutionState::Unresolved),
        _ => { report.error("step failed"); Err(()) }
    }
}
pub fn so_constant(r: &mut diagn::Report, _o: &asm::AssemblyOptions, _fs: &mut dyn util::FileServer, _a: &asm::AstSymbol, _d: &asm::ItemDecls, _f: &mut asm::ItemDefs, ctx: &asm::ResolverContext) -> Result<asm::ResolutionState, ()> { once_step(2, r, ctx) }
pub fn so_label(r: &mut diagn::Report, _o: &asm::AssemblyOptions, _a: &asm::AstSymbol, _d: &asm::ItemDecls, _f: &mut asm::ItemDefs, ctx: &asm::ResolverContext) -> Result<asm::ResolutionState, ()> { once_step(1, r, ctx) }
pub fn so_instr(r: &mut diagn::Report, _o: &asm::AssemblyOptions, _fs: &mut dyn util::FileServer, _a: &asm::AstInstruction, _d: &asm::ItemDecls, _f: &mut asm::ItemDefs, ctx: &asm::ResolverContext) -> Result<asm::ResolutionState, ()> { once_step(3, r, ctx) }
pub fn so_data(r: &mut diagn::Report, _o: &asm::AssemblyOptions, _fs: &mut dyn util::FileServer, _a: &asm::AstDirectiveData, _i: usize, _d: &asm::ItemDecls, _f: &mut asm::ItemDefs, ctx: &asm::ResolverContext) -> Result<asm::ResolutionState, ()> { once_step(4, r, ctx) }
pub fn so_res(r: &mut diagn::Report, _o: &asm::AssemblyOptions, _fs: &mut dyn util::FileServer, _a: &asm::AstDirectiveRes, _d: &asm::ItemDecls, _f: &mut asm::ItemDefs, ctx: &asm::ResolverContext) -> Result<asm::ResolutionState, ()> { once_step(5, r, ctx) }
pub fn so_align(r: &mut diagn::Report, _o: &asm::AssemblyOptions, _fs: &mut dyn util::FileServer, _a: &asm::AstDirectiveAlign, _d: &asm::ItemDecls, _f: &mut asm::ItemDefs, ctx: &asm::ResolverContext) -> Result<asm::ResolutionState, ()> { once_step(6, r, ctx) }
pub fn so_addr(r: &mut diagn::Report, _o: &asm::AssemblyOptions, _fs: &mut dyn util::FileServer, _a: &asm::AstDirectiveAddr, _d: &asm::ItemDecls, _f: &mut asm::ItemDefs, ctx: &asm::ResolverContext) -> Result<asm::ResolutionState, ()> { once_step(7, r, ctx) }
pub fn so_assert(r: &mut diagn::Report, _o: &asm::AssemblyOptions, _fs: &mut dyn util::FileServer, _a: &asm::AstDirectiveAssert, _d: &asm::ItemDecls, _f: &mut asm::ItemDefs, ctx: &asm::ResolverContext) -> Result<asm::ResolutionState, ()> { once_step(8, r, ctx) }

/// Runs the real `resolve_once` over `ast` (one node per entry of `want`) and checks the aggregation contract.
fn once_contract(ast: &asm::AstTopLevel, decls: &asm::ItemDecls, defs: &mut asm::ItemDefs, want: &[u8]) {
    let mut report = diagn::Report::new();
    let opts = asm::AssemblyOptions::new();
    let mut fs = NoFs;
    let (first, last): (bool, bool) = (kani::any(), kani::any());
    unsafe { OL.n = 0; OL.first = first; OL.last = last; OL.flags_ok = true; }
    let r = asm::resolver::resolve_once(&mut report, &opts, &mut fs, ast, decls, defs, 0, first, last);
    let n = unsafe { OL.n };
    assert!(n <= want.len(), "a step ran more often than there are items");
    let mut any_unres = false;
    let mut err_at: Option<usize> = None;
    let mut i = 0;
    while i < n {
        assert!(unsafe { OL.kinds[i] } == want[i], "items are not visited once each, in source order, by the step of their kind");
        let c = unsafe { OL.ret[i] };
        if c == 1 { any_unres = true; }
        if c == 2 && err_at.is_none() { err_at = Some(i); }
        i += 1;
    }
    assert!(unsafe { OL.flags_ok }, "a step saw pass flags other than those of the pass");
    match &r {
        Err(_) => {
            assert!(err_at == Some(n - 1), "pass failed although no step failed, or went on after a failing step");
            assert!(msgs(&report) > 0, "Err without a diagnostic");
        }
        Ok(ref st) => {
            assert!(err_at.is_none(), "a failing step was swallowed");
            assert!(n == want.len(), "an item was skipped on this pass");
            let resolved = matches!(st, asm::ResolutionState::Resolved);
            assert!(resolved == !any_unres, "pass state is not 'Resolved iff every item is Resolved'");
            assert!(msgs(&report) == 0, "diagnostic without a failing step");
        }
    }
    kani::cover!(r.is_ok() && !any_unres && first && !last, "everything resolved on a first pass");
    kani::cover!(r.is_ok() && any_unres && last, "unresolved item on the final pass");
    kani::cover!(r.is_err() && n == want.len(), "last item fails");
    kani::cover!(r.is_err() && n == 1, "first item fails");
    std::mem::forget(report); std::mem::forget(opts);
}

macro_rules! once_harness {
    ($(#[$m:meta])* fn $name:ident() $body:block) => {
        modelled! {
            #[kani::stub(customasm::asm::resolver::constant::resolve_constant, so_constant)]
            #[kani::stub(customasm::asm::resolver::label::resolve_label, so_label)]
            #[kani::stub(customasm::asm::resolver::instruction::resolve_instruction, so_instr)]
            #[kani::stub(customasm::asm::resolver::data_block::resolve_data_element, so_data)]
            #[kani::stub(customasm::asm::resolver::res::resolve_res, so_res)]
            #[kani::stub(customasm::asm::resolver::align::resolve_align, so_align)]
            #[kani::stub(customasm::asm::resolver::addr::resolve_addr, so_addr)]
            #[kani::stub(customasm::asm::resolver::assert::resolve_assert, so_assert)]
            #[kani::stub(customasm::util::BigInt::checked_add, crate::model::st_add)]
            #[kani::stub(customasm::util::BigInt::checked_sub, crate::model::st_sub)]
            #[kani::stub(customasm::util::BigInt::checked_mul, crate::model::st_mul)]
            #[kani::stub(customasm::util::BigInt::checked_mod, crate::c06::st_mod16)]
            $(#[$m])*
            fn $name() $body
        }
    };
}

fn once_lit() -> expr::Expr { expr::Expr::Literal(sp(), expr::Value::Bool(false)) }

/// builds the item list selected by `which` (two nodes each, to keep the formula small) and checks the contract
fn once_case(which: u8) {
    reset_report_model();
    let mut decls = empty_decls();
    let mut defs = asm::defs::init();
    defs.bankdefs.define(util::ItemRef::new(0), bank(0, 8, 0, None, Some(0), false));
    let sym = |name: &str, kind: asm::AstSymbolKind, r| asm::AstAny::Symbol(asm::AstSymbol { decl_span: sp(), hierarchy_level: 0, name: String::from(name), kind, no_emit: false, item_ref: Some(r) });
    let (nodes, want): (Vec<asm::AstAny>, &[u8]) = match which {
        0 => {
            defs.res_directives.define(util::ItemRef::new(0), asm::ResDirective { item_ref: util::ItemRef::new(0), reserve_size: 8 });
            (vec![
                asm::AstAny::DirectiveAssert(asm::AstDirectiveAssert { header_span: sp(), condition_expr: once_lit() }),
                asm::AstAny::DirectiveRes(asm::AstDirectiveRes { header_span: sp(), expr: once_lit(), item_ref: Some(util::ItemRef::new(0)) }),
            ], &[8, 5])
        }
        1 => {
            defs.align_directives.define(util::ItemRef::new(0), asm::AlignDirective { item_ref: util::ItemRef::new(0), align_size: 16 });
            defs.addr_directives.define(util::ItemRef::new(0), asm::AddrDirective { item_ref: util::ItemRef::new(0), address: BigInt::new(4, None) });
            (vec![
                asm::AstAny::DirectiveAlign(asm::AstDirectiveAlign { header_span: sp(), expr: once_lit(), item_ref: Some(util::ItemRef::new(0)) }),
                asm::AstAny::DirectiveAddr(asm::AstDirectiveAddr { header_span: sp(), expr: once_lit(), item_ref: Some(util::ItemRef::new(0)) }),
            ], &[6, 7])
        }
        2 => {
            let l0 = decls.symbols.verif_push_decl("a", 0, util::SymbolContext::new_global());
            let c0 = decls.symbols.verif_push_decl("c", 0, util::SymbolContext::new_global());
            (vec![
                sym("a", asm::AstSymbolKind::Label, l0),
                sym("c", asm::AstSymbolKind::Constant(asm::AstSymbolConstant { expr: once_lit() }), c0),
            ], &[1, 2])
        }
        3 => {
            defs.data_elems.define(util::ItemRef::new(0), asm::DataElement { item_ref: util::ItemRef::new(0), position_within_bank: None, encoding_statically_known: false, encoding: BigInt::new(0, Some(8)), resolved: false });
            defs.data_elems.define(util::ItemRef::new(1), asm::DataElement { item_ref: util::ItemRef::new(1), position_within_bank: None, encoding_statically_known: false, encoding: BigInt::new(0, Some(8)), resolved: false });
            (vec![
                asm::AstAny::DirectiveData(asm::AstDirectiveData { header_span: sp(), elem_size: None, elems: vec![once_lit(), once_lit()], item_refs: vec![util::ItemRef::new(0), util::ItemRef::new(1)] }),
            ], &[4, 4])
        }
        _ => {
            defs.instructions.define(util::ItemRef::new(0), asm::Instruction { item_ref: util::ItemRef::new(0), matches: asm::InstructionMatches::new(), encoding_statically_known: false, encoding: BigInt::new(0, Some(8)), resolved: false });
            (vec![
                asm::AstAny::Instruction(asm::AstInstruction { span: sp(), src: String::new(), item_ref: Some(util::ItemRef::new(0)) }),
                asm::AstAny::DirectiveAssert(asm::AstDirectiveAssert { header_span: sp(), condition_expr: once_lit() }),
            ], &[3, 8])
        }
    };
    let ast = asm::AstTopLevel { nodes };
    once_contract(&ast, &decls, &mut defs, want);
    std::mem::forget(decls); std::mem::forget(defs); std::mem::forget(ast);
}

once_harness! { #[kani::unwind(3)] fn c02_c_once_assert_res() { once_case(0) } }
once_harness! { #[kani::unwind(3)] fn c02_c_once_align_addr() { once_case(1) } }
once_harness! { #[kani::unwind(3)] fn c02_c_once_label_constant() { once_case(2) } }
once_harness! { #[kani::unwind(3)] fn c02_c_once_data2() { once_case(3) } }
once_harness! { #[kani::unwind(3)] fn c02_c_once_instr_assert() { once_case(4) } }
