//! C02 - a successful result is a genuine fixed point.
use crate::model::*;
use customasm::util::BigInt;
use customasm::*;

// pass log (struct with a magic word: see model.rs)
struct PassLog { magic: u64, calls: usize, last_is_last: bool, last_resolved: bool, first_ok: bool, index_ok: bool }
static mut PL: PassLog = PassLog { magic: 0x504c_5eed_c0de_0004, calls: 0, last_is_last: false, last_resolved: false, first_ok: true, index_ok: true };

/// Contract stub for resolver::resolve_once: any of Resolved / Unresolved / Err per call;
/// Err records an error (phase contract, checked for the reachable steps in C03-c).
pub fn resolve_once_nd(
    report: &mut diagn::Report, _opts: &asm::AssemblyOptions, _fs: &mut dyn util::FileServer,
    _ast: &asm::AstTopLevel, _decls: &asm::ItemDecls, _defs: &mut asm::ItemDefs,
    iteration_index: usize, is_first_iteration: bool, is_last_iteration: bool,
) -> Result<asm::ResolutionState, ()> {
    unsafe {
        PL.calls += 1;
        if (PL.calls == 1) != is_first_iteration { PL.first_ok = false; }
        if iteration_index != PL.calls { PL.index_ok = false; }
        PL.last_is_last = is_last_iteration;
        let r: u8 = kani::any();
        if r == 0 { PL.last_resolved = false; report.error("nd"); return Err(()); }
        if r == 1 { PL.last_resolved = true; return Ok(asm::ResolutionState::Resolved); }
        PL.last_resolved = false;
        Ok(asm::ResolutionState::Unresolved)
    }
}

pub(crate) fn iter_protocol(maxb: usize) {
    reset_report_model();
    let mut report = diagn::Report::new();
    let opts = asm::AssemblyOptions::new();
    let mut fs = NoFs;
    let ast = asm::AstTopLevel { nodes: Vec::new() };
    let decls = empty_decls();
    let mut defs = asm::defs::init();
    let max: usize = kani::any();
    kani::assume(max >= 1 && max <= maxb);
    let r = asm::resolver::resolve_iteratively(&mut report, &opts, &mut fs, &ast, &decls, &mut defs, max);
    unsafe {
        assert!(PL.first_ok, "is_first_iteration set on a pass other than the first");
        match r {
            Ok(n) => {
                assert!(PL.last_is_last, "success although the last pass was allowed to guess");
                assert!(PL.last_resolved, "success although the last pass was not Resolved");
                assert!(n >= 1 && n <= max, "reported pass count outside 1..=budget");
                assert!(errs(&report) == 0);
                kani::cover!(n == max && PL.calls == n, "converged exactly on the budget's last pass");
                kani::cover!(n < max && PL.calls == n + 1, "converged early and confirmed by a no-guess pass");
            }
            Err(()) => {
                kani::cover!(PL.calls < max && PL.last_is_last && errs(&report) == 0, "early convergence refuted by the no-guess confirmation pass");
                kani::cover!(PL.calls == max && errs(&report) == 0, "budget exhausted without convergence");
                kani::cover!(errs(&report) > 0, "a pass failed with an error");
            }
        }
    }
    std::mem::forget(decls);
    std::mem::forget(defs);
    std::mem::forget(report);
}

modelled! {
    #[kani::unwind(10)]
    #[kani::stub(customasm::asm::resolver::resolve_once, resolve_once_nd)]
    fn c02_a_iter_protocol() { iter_protocol(8) }
}

// ---------------------------------------------------------------- C02-b item steps
use crate::steps::*;

fn any_unit() -> usize {
    let k: usize = kani::any();
    kani::assume(k < 5);
    [1usize, 3, 8, 16, 32][k]
}

// ---- #res
step! { int;
    #[kani::unwind(2)]
    fn c02_b_res_int() {
        let v: i64 = kani::any();
        let unit = any_unit();
        let prev: usize = kani::any();
        let last: bool = kani::any();
        pre_int(v, None);
        let (o, stored) = res_step(0, v, unit, prev, last);
        kani::cover!(o.resolved && stored > 0, "reservation confirmed unchanged");
        kani::cover!(o.ok && !o.resolved && !last, "reservation changed on a guessing pass");
        kani::cover!(o.ok && !o.resolved && last, "reservation changed on the final pass");
        kani::cover!(!o.ok, "reservation beyond u32 rejected");
    }
}
macro_rules! undecided {
    ($kind:ident, $code:expr, $name:ident, $call:expr) => {
        step! { $kind;
            #[kani::unwind(2)]
            #[kani::stub(customasm::util::BigInt::checked_sub, crate::model::st_sub)]
            #[kani::stub(customasm::util::BigInt::checked_mul, crate::model::st_mul)]
            fn $name() {
                let last: bool = kani::any();
                // the real evaluator yields Unknown only on a pass that may guess
                if $code == 1 { kani::assume(!last); pre_unknown(); } else if $code == 2 { pre_failed(); } else { pre_err(); }
                let o: StepOut = ($call)($code, last);
                kani::cover!(!o.ok || !o.resolved, "undetermined value does not count as resolved");
            }
        }
    };
}
undecided!(unknown, 1, c02_b_res_unknown, |k, last| res_step(k, 0, 8, kani::any(), last).0);
undecided!(failed, 2, c02_b_res_failed, |k, last| res_step(k, 0, 8, kani::any(), last).0);
undecided!(err, 3, c02_b_res_err, |k, last| res_step(k, 0, 8, kani::any(), last).0);

// ---- #align
step! { int;
    #[kani::unwind(2)]
    fn c02_b_align_int() {
        let v: i64 = kani::any();
        let prev: usize = kani::any();
        let last: bool = kani::any();
        pre_int(v, None);
        let (o, stored) = align_step(0, v, prev, last);
        kani::cover!(o.resolved && stored > 1 && last, "alignment confirmed on the final pass");
        kani::cover!(!o.ok && v == 0, "alignment 0 rejected");
        kani::cover!(o.ok && !o.resolved, "alignment changed");
    }
}
undecided!(unknown, 1, c02_b_align_unknown, |k, last| align_step(k, 0, kani::any(), last).0);
undecided!(failed, 2, c02_b_align_failed, |k, last| align_step(k, 0, kani::any(), last).0);
undecided!(err, 3, c02_b_align_err, |k, last| align_step(k, 0, kani::any(), last).0);

// ---- #addr
step! { int;
    #[kani::unwind(2)]
    #[kani::stub(customasm::util::BigInt::checked_sub, crate::model::st_sub)]
    #[kani::stub(customasm::util::BigInt::checked_mul, crate::model::st_mul)]
    fn c02_b_addr_int() {
        let v: i32 = kani::any();
        let start: i16 = kani::any();
        let unit = any_unit();
        let size: Option<usize> = if kani::any() { let s: usize = kani::any(); kani::assume(s < (1usize << 40)); Some(s) } else { None };
        let prev: i32 = kani::any();
        let last: bool = kani::any();
        pre_int(v as i64, None);
        let (o, _) = addr_step(0, v as i64, start as i64, unit, size, prev as i64, last);
        kani::cover!(o.resolved && last && size.is_some(), "address inside a sized bank confirmed");
        kani::cover!(!o.ok && (v as i64) < start as i64, "address below the bank rejected");
        kani::cover!(!o.ok && (v as i64) > start as i64, "address beyond the bank size rejected");
        kani::cover!(o.ok && !o.resolved, "address changed");
    }
}
undecided!(unknown, 1, c02_b_addr_unknown, |k, last| addr_step(k, 0, 0, 8, None, kani::any::<i32>() as i64, last).0);
undecided!(failed, 2, c02_b_addr_failed, |k, last| addr_step(k, 0, 0, 8, None, kani::any::<i32>() as i64, last).0);
undecided!(err, 3, c02_b_addr_err, |k, last| addr_step(k, 0, 0, 8, None, kani::any::<i32>() as i64, last).0);

// ---- data element
step! { int;
    #[kani::unwind(2)]
    fn c02_b_data_int() {
        // any pass kind, both optimisation settings
        let n: usize = kani::any(); kani::assume(n >= 1 && n <= 8);
        let v: i16 = kani::any();
        let first: bool = kani::any();
        let last: bool = kani::any();
        let sk: bool = kani::any();
        let opt: bool = kani::any();
        let prev: i16 = kani::any(); kani::assume(prev >= 0 && (prev as i64) < (1i64 << n));
        pre_int(v as i64, None);
        let (res, flag, _) = data_element_step(n, v as i64, None, 0, first, last, sk, opt, prev as i64);
        kani::cover!(res && !flag && !last, "unchanged on a guessing pass");
        kani::cover!(flag, "resolved flag set from a statically known first pass");
        kani::cover!(!res && last, "changed on the final pass");
    }
}
macro_rules! undecided_data {
    ($kind:ident, $code:expr, $name:ident) => {
        step! { $kind;
            #[kani::unwind(2)]
            fn $name() {
                let (first, last, sk, opt): (bool, bool, bool, bool) = (kani::any(), kani::any(), kani::any(), kani::any());
                if $code == 1 { kani::assume(!last); pre_unknown(); } else if $code == 2 { pre_failed(); } else { pre_err(); }
                let (res, flag, _) = data_element_step(8, 0, None, $code, first, last, sk, opt, 5);
                assert!(!flag, "undetermined value marked as resolved for good");
                kani::cover!(!res, "undetermined value does not count as resolved");
            }
        }
    };
}
undecided_data!(unknown, 1, c02_b_data_unknown);
undecided_data!(failed, 2, c02_b_data_failed);
undecided_data!(err, 3, c02_b_data_err);


// ---- instruction (argument-less matches; productions through the evaluator stub)
// Values are concrete and sizes symbolic: `InstructionMatchResolution` and `expr::Value` keep their
// discriminant in a niche of the big integer's sign byte, so a symbolic *value* makes every variant's
// clone code (message and string copies of symbolic length) part of the formula (memory cap).
step! { int;
    #[kani::unwind(2)]
    fn c02_b_instr_one_match() {
        // one match resolving to (0x5a, size s): stored encoding is exactly that; Resolved <=> value unchanged
        let s: usize = kani::any(); kani::assume(s >= 8 && s <= 24);
        let ps: usize = kani::any(); kani::assume(ps <= 24);
        let same: bool = kani::any();
        let (first, last, sk, opt): (bool, bool, bool, bool) = (kani::any(), kani::any(), kani::any(), kani::any());
        let (decls, mut defs) = if same { instr_defs(1, 0x5a, ps, sk) } else { instr_defs(1, 0x33, ps, sk) };
        pre_int(0x5a, Some(s));
        let o = instr_step(&decls, &mut defs, first, last, opt);
        assert!(o.ok, "resolvable instruction failed");
        assert!(o.stored == 0x5a && o.stored_size == Some(s), "stored encoding is not the freshly computed one (value and size)");
        if !o.flag { assert!(o.resolved == same, "Resolved differs from 'encoding value unchanged'"); }
        if o.flag { assert!(sk && first && opt, "resolved flag set although the encoding is not statically known on the first pass"); }
        if !o.resolved && last { assert!(o.errs > 0, "final pass unresolved without a diagnostic"); }
        kani::cover!(o.resolved && !o.flag && ps != s, "same value, different size than before");
        kani::cover!(!o.resolved && last, "changed on the final pass");
        kani::cover!(o.flag, "resolved for good on a statically known first pass");
        std::mem::forget(decls); std::mem::forget(defs);
    }
}
step! { int;
    #[kani::unwind(2)]
    fn c02_b_instr_two_matches() {
        // two resolving matches (0x11 of size s0, 0x22 of size s1): the unique smallest is stored;
        // equal sizes are an error on the final pass
        let (s0, s1): (usize, usize) = (kani::any(), kani::any());
        kani::assume(s0 >= 8 && s0 <= 12 && s1 >= 8 && s1 <= 12);
        let last: bool = kani::any();
        let pk: u8 = kani::any(); kani::assume(pk < 3);
        let (decls, mut defs) = if pk == 0 { instr_defs(2, 0x11, 8, false) } else if pk == 1 { instr_defs(2, 0x22, 8, false) } else { instr_defs(2, 0x33, 8, false) };
        let prev: i64 = if pk == 0 { 0x11 } else if pk == 1 { 0x22 } else { 0x33 };
        pre_int(0x11, Some(s0));
        pre2_int(0x22, Some(s1));
        let o = instr_step(&decls, &mut defs, false, last, true);
        assert!(o.ok);
        if s0 == s1 && last {
            assert!(o.errs > 0 && !o.resolved, "two equally small encodings accepted on the final pass");
        } else {
            let (wv, ws) = if s1 < s0 { (0x22, s1) } else { (0x11, s0) };
            assert!(o.stored == wv && o.stored_size == Some(ws), "stored encoding is not the smallest candidate");
            assert!(o.resolved == (prev == wv), "Resolved differs from 'encoding value unchanged'");
        }
        kani::cover!(s1 < s0 && o.resolved, "second, smaller rule selected");
        kani::cover!(s0 == s1 && last, "ambiguity on the final pass");
        kani::cover!(s0 == s1 && !last && o.resolved, "ambiguity tolerated while guessing");
        std::mem::forget(decls); std::mem::forget(defs);
    }
}
step! { failed;
    #[kani::unwind(2)]
    fn c02_b_instr_failed_constraint() {
        // the only match fails its constraint: never resolved; an error on the final pass
        let last: bool = kani::any();
        let (decls, mut defs) = instr_defs(1, 5, 8, false);
        pre_failed();
        let o = instr_step(&decls, &mut defs, false, last, true);
        assert!(o.ok && !o.resolved, "instruction whose only rule fails its constraint counted as resolved");
        assert!(o.stored == 5, "failed match overwrote the stored encoding");
        if last { assert!(o.errs > 0, "final pass without a diagnostic"); }
        kani::cover!(last);
        kani::cover!(!last && o.errs == 0, "silent while guessing");
        std::mem::forget(decls); std::mem::forget(defs);
    }
}
step! { unknown;
    #[kani::unwind(2)]
    fn c02_b_instr_unknown_value() {
        // the only match evaluates to Unknown (possible even on a no-guess pass inside an asm block,
        // where a label of the block is not known yet): never resolved, never a panic, an error on the final pass
        let last: bool = kani::any();
        let (decls, mut defs) = instr_defs(1, 5, 8, false);
        pre_unknown();
        let o = instr_step(&decls, &mut defs, false, last, true);
        assert!(o.ok && !o.resolved, "instruction with an unknown production counted as resolved");
        if last { assert!(o.errs > 0, "final pass without a diagnostic"); }
        kani::cover!(last);
        std::mem::forget(decls); std::mem::forget(defs);
    }
}

modelled! {
    #[kani::unwind(33)]
    #[kani::stub(customasm::asm::resolver::resolve_once, resolve_once_nd)]
    fn c02_a_iter_protocol30() { iter_protocol(30) }
}
