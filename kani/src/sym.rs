//! Symbolic builders shared by the harnesses.
use customasm::*;

/// A string of 0..=N arbitrary Unicode scalar values in a caller-provided buffer.
/// Built with encode_utf8 + from_utf8_unchecked: validating symbolic bytes with
/// from_utf8 is prohibitively expensive and is not needed (encode_utf8 output is valid).
pub fn any_str<'a, const N: usize>(buf: &'a mut [u8]) -> &'a str {
    let n: usize = kani::any();
    kani::assume(n <= N);
    let mut len = 0;
    let mut i = 0;
    while i < N {
        if i < n {
            let c: char = kani::any();
            len += c.encode_utf8(&mut buf[len..]).len();
        }
        i += 1;
    }
    unsafe { std::str::from_utf8_unchecked(&buf[..len]) }
}

/// Same, chars drawn from a small alphabet plus one arbitrary multi-byte char.
pub fn any_str_from<'a, const N: usize>(buf: &'a mut [u8], alphabet: &[char]) -> &'a str {
    let n: usize = kani::any();
    kani::assume(n <= N);
    let mut len = 0;
    let mut i = 0;
    while i < N {
        if i < n {
            let k: usize = kani::any();
            kani::assume(k < alphabet.len());
            len += alphabet[k].encode_utf8(&mut buf[len..]).len();
        }
        i += 1;
    }
    unsafe { std::str::from_utf8_unchecked(&buf[..len]) }
}

/// A symbolic string that remembers how it was built, so that specifications can be
/// written over (char, byte offset) arrays instead of re-decoding UTF-8.
pub struct SymStr<const N: usize> {
    pub buf: [u8; 16],
    pub len: usize,
    pub n: usize,
    pub cs: [char; N],
    pub off: [usize; N], // byte offset of char i (valid for i < n)
}
impl<const N: usize> SymStr<N> {
    /// 0..=N arbitrary chars.
    pub fn any() -> Self {
        Self::build(|| kani::any())
    }
    /// 0..=N chars, each '\n' or an arbitrary char of a symbolic width class
    pub fn from(alphabet: &'static [char]) -> Self {
        Self::build(|| {
            let k: usize = kani::any();
            kani::assume(k < alphabet.len());
            alphabet[k]
        })
    }
    fn build<F: Fn() -> char>(f: F) -> Self {
        let mut s = SymStr { buf: [0u8; 16], len: 0, n: kani::any(), cs: ['a'; N], off: [0; N] };
        kani::assume(s.n <= N);
        let mut i = 0;
        while i < N {
            if i < s.n {
                let c = f();
                s.cs[i] = c;
                s.off[i] = s.len;
                s.len += c.encode_utf8(&mut s.buf[s.len..]).len();
            }
            i += 1;
        }
        s
    }
    pub fn as_str(&self) -> &str {
        unsafe { std::str::from_utf8_unchecked(&self.buf[..self.len]) }
    }
    /// byte index i is a char boundary of the string
    pub fn is_boundary(&self, idx: usize) -> bool {
        if idx == self.len {
            return true;
        }
        let mut i = 0;
        while i < N {
            if i < self.n && self.off[i] == idx {
                return true;
            }
            i += 1;
        }
        false
    }
}
