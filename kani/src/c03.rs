//! C03 - failure is loud, success clean, never crashes.
use crate::model::*;
use customasm::util::BigInt;
use customasm::*;

// ---------------------------------------------------------------- C03-a: asm::assemble envelope

/// Phase contract: a phase either succeeds without recording anything, or fails
/// after recording at least one error.
fn flip(report: &mut diagn::Report) -> Result<(), ()> {
    if kani::any() {
        report.error("phase failed");
        Err(())
    } else {
        Ok(())
    }
}
struct PhaseLog { magic: u64, log: [u8; 16], n: usize, after_output_fail: bool, output_built: bool }
static mut PH: PhaseLog = PhaseLog { magic: 0x5048_5eed_c0de_0005, log: [0; 16], n: 0, after_output_fail: false, output_built: false };
fn logp(id: u8) {
    unsafe {
        if PH.n < 16 {
            PH.log[PH.n] = id;
            PH.n += 1;
        }
    }
}
pub fn st_parse_many<S: std::borrow::Borrow<str>>(report: &mut diagn::Report, _fs: &mut dyn util::FileServer, _r: &[S]) -> Result<asm::AstTopLevel, ()> {
    logp(1);
    flip(report)?;
    Ok(asm::AstTopLevel { nodes: Vec::new() })
}
pub fn st_decls_init(report: &mut diagn::Report) -> Result<asm::ItemDecls, ()> {
    logp(2);
    flip(report)?;
    Ok(empty_decls())
}
pub fn st_collect(report: &mut diagn::Report, _ast: &mut asm::AstTopLevel, _decls: &mut asm::ItemDecls) -> Result<(), ()> {
    logp(3);
    flip(report)
}
pub fn st_define_symbols(report: &mut diagn::Report, _o: &asm::AssemblyOptions, _ast: &mut asm::AstTopLevel, _decls: &asm::ItemDecls, _defs: &mut asm::ItemDefs) -> Result<(), ()> {
    logp(4);
    flip(report)
}
pub fn st_consts(report: &mut diagn::Report, _o: &asm::AssemblyOptions, _fs: &mut dyn util::FileServer, _ast: &asm::AstTopLevel, _decls: &asm::ItemDecls, _defs: &mut asm::ItemDefs) -> Result<usize, ()> {
    logp(5);
    flip(report)?;
    Ok(0)
}
pub fn st_ifs(report: &mut diagn::Report, _o: &asm::AssemblyOptions, _fs: &mut dyn util::FileServer, _ast: &mut asm::AstTopLevel, _decls: &asm::ItemDecls, _defs: &asm::ItemDefs) -> Result<usize, ()> {
    logp(6);
    flip(report)?;
    Ok(0)
}
pub fn st_leftover(report: &mut diagn::Report, _ast: &asm::AstTopLevel, _decls: &asm::ItemDecls, _defs: &asm::ItemDefs) -> Result<(), ()> {
    logp(7);
    flip(report)
}
pub fn st_define_remaining(report: &mut diagn::Report, _o: &asm::AssemblyOptions, _ast: &mut asm::AstTopLevel, _defs: &mut asm::ItemDefs, _decls: &mut asm::ItemDecls) -> Result<(), ()> {
    logp(8);
    flip(report)
}
pub fn st_match_all(report: &mut diagn::Report, _o: &asm::AssemblyOptions, _ast: &asm::AstTopLevel, _decls: &asm::ItemDecls, _defs: &mut asm::ItemDefs) -> Result<(), ()> {
    logp(9);
    flip(report)
}
pub fn st_resolve_iter(report: &mut diagn::Report, _o: &asm::AssemblyOptions, _fs: &mut dyn util::FileServer, _ast: &asm::AstTopLevel, _decls: &asm::ItemDecls, _defs: &mut asm::ItemDefs, _m: usize) -> Result<usize, ()> {
    logp(10);
    flip(report)?;
    Ok(1)
}
pub fn st_bank_overlap(report: &mut diagn::Report, _decls: &asm::ItemDecls, _defs: &asm::ItemDefs) -> Result<(), ()> {
    logp(11);
    flip(report)
}
pub fn st_build_output(report: &mut diagn::Report, _ast: &asm::AstTopLevel, _decls: &asm::ItemDecls, _defs: &asm::ItemDefs) -> Result<util::BitVec, ()> {
    logp(12);
    flip(report)?;
    unsafe { PH.output_built = true; }
    Ok(util::BitVec::new())
}
pub fn st_unused(report: &mut diagn::Report, _o: &asm::AssemblyOptions, _d: &asm::ItemDecls) -> Result<(), ()> {
    logp(13);
    let r = flip(report);
    if r.is_err() {
        unsafe { PH.after_output_fail = PH.output_built; }
    }
    r
}

modelled! {
    #[kani::unwind(3)]
    #[kani::stub(customasm::asm::parser::parse_many_and_resolve_includes, st_parse_many)]
    #[kani::stub(customasm::asm::decls::init, st_decls_init)]
    #[kani::stub(customasm::asm::decls::collect, st_collect)]
    #[kani::stub(customasm::asm::defs::define_symbols, st_define_symbols)]
    #[kani::stub(customasm::asm::resolver::resolve_constants_simple, st_consts)]
    #[kani::stub(customasm::asm::resolver::resolve_ifs, st_ifs)]
    #[kani::stub(customasm::asm::resolver::check_leftover_ifs, st_leftover)]
    #[kani::stub(customasm::asm::defs::define_remaining, st_define_remaining)]
    #[kani::stub(customasm::asm::matcher::match_all, st_match_all)]
    #[kani::stub(customasm::asm::resolver::resolve_iteratively, st_resolve_iter)]
    #[kani::stub(customasm::asm::output::check_bank_overlap, st_bank_overlap)]
    #[kani::stub(customasm::asm::output::build_output, st_build_output)]
    #[kani::stub(customasm::asm::check_unused_defines, st_unused)]
    fn c03_a_assemble_envelope() {
        reset_report_model();
        let mut report = diagn::Report::new();
        let opts = asm::AssemblyOptions::new();
        let mut fs = NoFs;
        let res = asm::assemble(&mut report, &opts, &mut fs, &["a"]);
        let had = msgs(&report) > 0;
        assert!(res.error == had, "error flag disagrees with recorded diagnostics");
        assert!(!(res.error && res.output.is_some()), "failed assembly still delivers output");
        assert!(res.error || res.output.is_some(), "successful assembly without output");
        assert!(res.error || res.iterations_taken.is_some());
        kani::cover!(!res.error, "all phases succeed");
        kani::cover!(res.error && unsafe { PH.n } == 1, "first phase fails");
        kani::cover!(res.error && unsafe { PH.log[PH.n - 1] } == 13, "last phase fails");
        kani::cover!(res.error && unsafe { PH.log[PH.n - 1] } == 10, "resolution fails");
        std::mem::forget(res);
        std::mem::forget(report);
        std::mem::forget(opts);
    }
}

// ---------------------------------------------------------------- C03-c: step contracts

struct BoolEval { magic: u64, kind: u8, b: bool }
static mut BE: BoolEval = BoolEval { magic: 0x4245_5eed_c0de_0006, kind: 0, b: false };
/// Contract stub for the evaluator: Ok(Bool b) | Ok(Integer 0) | Ok(Unknown) | Err after an error.
pub fn st_eval_bool(report: &mut diagn::Report, _opts: &asm::AssemblyOptions, _fs: &mut dyn util::FileServer, _decls: &asm::ItemDecls, _defs: &asm::ItemDefs, _ctx: &asm::ResolverContext, _ectx: &mut expr::EvalContext, _e: &expr::Expr) -> Result<expr::Value, ()> {
    unsafe {
        match BE.kind {
            0 => Ok(expr::Value::Bool(BE.b)),
            1 => Ok(expr::Value::make_integer(BigInt::new(0, None))),
            2 => Ok(expr::Value::Unknown),
            _ => {
                report.error("eval failed");
                Err(())
            }
        }
    }
}

modelled! {
    #[kani::unwind(2)]
    #[kani::stub(customasm::asm::resolver::eval::eval, st_eval_bool)]
    fn c03_c_assert_contract() {
        reset_report_model();
        let mut report = diagn::Report::new();
        let decls = empty_decls();
        let mut defs = asm::defs::init();
        let b: bool = kani::any();
        let k: u8 = kani::any();
        kani::assume(k < 4);
        let last: bool = kani::any();
        unsafe { BE.b = b; BE.kind = k; }
        let ast = asm::AstDirectiveAssert { header_span: sp(), condition_expr: expr::Expr::Literal(sp(), expr::Value::Bool(b)) };
        let bd = asm::resolver::BankData { cur_position: 0 };
        let ctx = rctx(&bd, 0, false, last);
        let opts = asm::AssemblyOptions::new();
        let mut fs = NoFs;
        let r = asm::resolver::verif_hooks::resolve_assert(&mut report, &opts, &mut fs, &ast, &decls, &mut defs, &ctx);
        match r {
            Ok(asm::ResolutionState::Resolved) => {
                assert!(msgs(&report) == 0, "step reports Resolved although it recorded a diagnostic");
                assert!(last, "assertion counted as resolved on a guessing pass");
                assert!(k == 0 && b, "assertion resolved although its condition is not true");
                kani::cover!(true, "assertion holds on the final pass");
            }
            Ok(asm::ResolutionState::Unresolved) => {
                assert!(!last || msgs(&report) > 0, "final pass left unresolved without a diagnostic");
                kani::cover!(!last, "non-final pass keeps the assertion pending");
                kani::cover!(last && k == 0 && !b, "false assertion on the final pass: diagnostic and not resolved");
            }
            Err(()) => {
                assert!(errs(&report) > 0, "Err without an error diagnostic");
                kani::cover!(k == 1, "non-boolean condition is an error");
            }
        }
        std::mem::forget(decls);
        std::mem::forget(defs);
        std::mem::forget(report);
        std::mem::forget(ast);
    }
}
