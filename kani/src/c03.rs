//! C03 - failure is loud, success clean, never crashes.
use crate::model::*;
use customasm::util::BigInt;
use customasm::*;

// ---------------------------------------------------------------- C03-a: asm::assemble envelope

/// Phase contract: a phase either succeeds without recording anything, or fails
/// after recording at least one error.
fn flip(report: &mut diagn::Report) -> Result<(), ()> {
    if kani::any() {
        report.error("phase failed");
        Err(())
    } else {
        Ok(())
    }
}
struct PhaseLog { magic: u64, log: [u8; 16], n: usize, after_output_fail: bool, output_built: bool }
static mut PH: PhaseLog = PhaseLog { magic: 0x5048_5eed_c0de_0005, log: [0; 16], n: 0, after_output_fail: false, output_built: false };
fn logp(id: u8) {
    unsafe {
        if PH.n < 16 {
            PH.log[PH.n] = id;
            PH.n += 1;
        }
    }
}
pub fn st_parse_many<S: std::borrow::Borrow<str>>(report: &mut diagn::Report, _fs: &mut dyn util::FileServer, _r: &[S]) -> Result<asm::AstTopLevel, ()> {
    logp(1);
    flip(report)?;
    Ok(asm::AstTopLevel { nodes: Vec::new() })
}
pub fn st_decls_init(report: &mut diagn::Report) -> Result<asm::ItemDecls, ()> {
    logp(2);
    flip(report)?;
    Ok(empty_decls())
}
pub fn st_collect(report: &mut diagn::Report, _ast: &mut asm::AstTopLevel, _decls: &mut asm::ItemDecls) -> Result<(), ()> {
    logp(3);
    flip(report)
}
pub fn st_define_symbols(report: &mut diagn::Report, _o: &asm::AssemblyOptions, _ast: &mut asm::AstTopLevel, _decls: &asm::ItemDecls, _defs: &mut asm::ItemDefs) -> Result<(), ()> {
    logp(4);
    flip(report)
}
pub fn st_consts(report: &mut diagn::Report, _o: &asm::AssemblyOptions, _fs: &mut dyn util::FileServer, _ast: &asm::AstTopLevel, _decls: &asm::ItemDecls, _defs: &mut asm::ItemDefs) -> Result<usize, ()> {
    logp(5);
    flip(report)?;
    Ok(0)
}
pub fn st_ifs(report: &mut diagn::Report, _o: &asm::AssemblyOptions, _fs: &mut dyn util::FileServer, _ast: &mut asm::AstTopLevel, _decls: &asm::ItemDecls, _defs: &asm::ItemDefs) -> Result<usize, ()> {
    logp(6);
    flip(report)?;
    Ok(0)
}
pub fn st_leftover(report: &mut diagn::Report, _ast: &asm::AstTopLevel, _decls: &asm::ItemDecls, _defs: &asm::ItemDefs) -> Result<(), ()> {
    logp(7);
    flip(report)
}
pub fn st_define_remaining(report: &mut diagn::Report, _o: &asm::AssemblyOptions, _ast: &mut asm::AstTopLevel, _defs: &mut asm::ItemDefs, _decls: &mut asm::ItemDecls) -> Result<(), ()> {
    logp(8);
    flip(report)
}
pub fn st_match_all(report: &mut diagn::Report, _o: &asm::AssemblyOptions, _ast: &asm::AstTopLevel, _decls: &asm::ItemDecls, _defs: &mut asm::ItemDefs) -> Result<(), ()> {
    logp(9);
    flip(report)
}
pub fn st_resolve_iter(report: &mut diagn::Report, _o: &asm::AssemblyOptions, _fs: &mut dyn util::FileServer, _ast: &asm::AstTopLevel, _decls: &asm::ItemDecls, _defs: &mut asm::ItemDefs, _m: usize) -> Result<usize, ()> {
    logp(10);
    flip(report)?;
    Ok(1)
}
pub fn st_bank_overlap(report: &mut diagn::Report, _decls: &asm::ItemDecls, _defs: &asm::ItemDefs) -> Result<(), ()> {
    logp(11);
    flip(report)
}
pub fn st_build_output(report: &mut diagn::Report, _ast: &asm::AstTopLevel, _decls: &asm::ItemDecls, _defs: &asm::ItemDefs) -> Result<util::BitVec, ()> {
    logp(12);
    flip(report)?;
    unsafe { PH.output_built = true; }
    Ok(util::BitVec::new())
}
pub fn st_unused(report: &mut diagn::Report, _o: &asm::AssemblyOptions, _d: &asm::ItemDecls) -> Result<(), ()> {
    logp(13);
    let r = flip(report);
    if r.is_err() {
        unsafe { PH.after_output_fail = PH.output_built; }
    }
    r
}

modelled! {
    #[kani::unwind(3)]
    #[kani::stub(customasm::asm::parser::parse_many_and_resolve_includes, st_parse_many)]
    #[kani::stub(customasm::asm::decls::init, st_decls_init)]
    #[kani::stub(customasm::asm::decls::collect, st_collect)]
    #[kani::stub(customasm::asm::defs::define_symbols, st_define_symbols)]
    #[kani::stub(customasm::asm::resolver::resolve_constants_simple, st_consts)]
    #[kani::stub(customasm::asm::resolver::resolve_ifs, st_ifs)]
    #[kani::stub(customasm::asm::resolver::check_leftover_ifs, st_leftover)]
    #[kani::stub(customasm::asm::defs::define_remaining, st_define_remaining)]
    #[kani::stub(customasm::asm::matcher::match_all, st_match_all)]
    #[kani::stub(customasm::asm::resolver::resolve_iteratively, st_resolve_iter)]
    #[kani::stub(customasm::asm::output::check_bank_overlap, st_bank_overlap)]
    #[kani::stub(customasm::asm::output::build_output, st_build_output)]
    #[kani::stub(customasm::asm::check_unused_defines, st_unused)]
    fn c03_a_assemble_envelope() {
        reset_report_model();
        let mut report = diagn::Report::new();
        let opts = asm::AssemblyOptions::new();
        let mut fs = NoFs;
        let res = asm::assemble(&mut report, &opts, &mut fs, &["a"]);
        let had = msgs(&report) > 0;
        assert!(res.error == had, "error flag disagrees with recorded diagnostics");
        assert!(!(res.error && res.output.is_some()), "failed assembly still delivers output");
        assert!(res.error || res.output.is_some(), "successful assembly without output");
        assert!(res.error || res.iterations_taken.is_some());
        kani::cover!(!res.error, "all phases succeed");
        kani::cover!(res.error && unsafe { PH.n } == 1, "first phase fails");
        kani::cover!(res.error && unsafe { PH.log[PH.n - 1] } == 13, "last phase fails");
        kani::cover!(res.error && unsafe { PH.log[PH.n - 1] } == 10, "resolution fails");
        std::mem::forget(res);
        std::mem::forget(report);
        std::mem::forget(opts);
    }
}

// ---------------------------------------------------------------- C03-c: step contracts

struct BoolEval { magic: u64, kind: u8, b: bool }
static mut BE: BoolEval = BoolEval { magic: 0x4245_5eed_c0de_0006, kind: 0, b: false };
/// Contract stub for the evaluator: Ok(Bool b) | Ok(Integer 0) | Ok(Unknown) | Err after an error.
pub fn st_eval_bool(report: &mut diagn::Report, _opts: &asm::AssemblyOptions, _fs: &mut dyn util::FileServer, _decls: &asm::ItemDecls, _defs: &asm::ItemDefs, _ctx: &asm::ResolverContext, _ectx: &mut expr::EvalContext, _e: &expr::Expr) -> Result<expr::Value, ()> {
    unsafe {
        match BE.kind {
            0 => Ok(expr::Value::Bool(BE.b)),
            1 => Ok(expr::Value::make_integer(BigInt::new(0, None))),
            2 => Ok(expr::Value::Unknown),
            _ => {
                report.error("eval failed");
                Err(())
            }
        }
    }
}

modelled! {
    #[kani::unwind(2)]
    #[kani::stub(customasm::asm::resolver::eval::eval, st_eval_bool)]
    fn c03_c_assert_contract() {
        reset_report_model();
        let mut report = diagn::Report::new();
        let decls = empty_decls();
        let mut defs = asm::defs::init();
        let b: bool = kani::any();
        let k: u8 = kani::any();
        kani::assume(k < 4);
        let last: bool = kani::any();
        unsafe { BE.b = b; BE.kind = k; }
        let ast = asm::AstDirectiveAssert { header_span: sp(), condition_expr: expr::Expr::Literal(sp(), expr::Value::Bool(b)) };
        let bd = asm::resolver::BankData { cur_position: 0 };
        let ctx = rctx(&bd, 0, false, last);
        let opts = asm::AssemblyOptions::new();
        let mut fs = NoFs;
        let r = asm::resolver::verif_hooks::resolve_assert(&mut report, &opts, &mut fs, &ast, &decls, &mut defs, &ctx);
        match r {
            Ok(asm::ResolutionState::Resolved) => {
                assert!(msgs(&report) == 0, "step reports Resolved although it recorded a diagnostic");
                assert!(k == 0 && b, "assertion resolved although its condition is not true");
                kani::cover!(last, "assertion holds on the final pass");
            }
            Ok(asm::ResolutionState::Unresolved) => {
                assert!(!last || msgs(&report) > 0, "final pass left unresolved without a diagnostic");
                kani::cover!(!last, "non-final pass keeps the assertion pending");
                kani::cover!(last && k == 0 && !b, "false assertion on the final pass: diagnostic and not resolved");
            }
            Err(()) => {
                assert!(errs(&report) > 0, "Err without an error diagnostic");
                kani::cover!(k == 1, "non-boolean condition is an error");
            }
        }
        std::mem::forget(decls);
        std::mem::forget(defs);
        std::mem::forget(report);
        std::mem::forget(ast);
    }
}

// ---------------------------------------------------------------- C03-b driver envelope

struct DriverLog { magic: u64, asm_error: bool, writes: usize, order_ok: bool, fail_mask: u8, formats: usize }
static mut DL: DriverLog = DriverLog { magic: 0x444c_5eed_c0de_0009, asm_error: false, writes: 0, order_ok: true, fail_mask: 0, formats: 0 };

/// Contract stub for asm::assemble, as established by C03-a: error <=> diagnostics recorded,
/// error => no output, success => output present.
pub fn st_assemble<S: std::borrow::Borrow<str>>(report: &mut diagn::Report, _opts: &asm::AssemblyOptions, _fs: &mut dyn util::FileServer, _roots: &[S]) -> asm::AssemblyResult {
    let mut res = asm::AssemblyResult::new();
    unsafe {
        if DL.asm_error {
            report.error("assembly failed");
            res.error = true;
        } else {
            res.ast = Some(asm::AstTopLevel { nodes: Vec::new() });
            res.decls = Some(empty_decls());
            res.defs = Some(asm::defs::init());
            res.output = Some(util::BitVec::new());
            res.iterations_taken = Some(1);
        }
    }
    res
}
pub fn st_format_output(_fs: &dyn util::FileServer, _decls: &asm::ItemDecls, _defs: &asm::ItemDefs, _out: &util::BitVec, _f: crate::driver::OutputFormat) -> Vec<u8> {
    unsafe { DL.formats += 1; }
    Vec::new()
}
/// File server whose writes fail at an arbitrary subset of calls (each single permanent output fault).
struct NdFs;
impl util::FileServer for NdFs {
    fn get_handle(&mut self, r: &mut diagn::Report, _s: Option<diagn::Span>, _f: &str) -> Result<usize, ()> { r.error("nf"); Err(()) }
    fn get_filename(&self, _h: usize) -> &str { "" }
    fn get_bytes(&self, r: &mut diagn::Report, _s: Option<diagn::Span>, _h: usize) -> Result<Vec<u8>, ()> { r.error("nf"); Err(()) }
    fn write_bytes(&mut self, r: &mut diagn::Report, _s: Option<diagn::Span>, f: &str, _d: &Vec<u8>) -> Result<(), ()> {
        unsafe {
            let k = DL.writes;
            DL.writes += 1;
            // file names are "0", "1", "2" in group order
            if f.as_bytes()[0] != b'0' + (k as u8) && false { DL.order_ok = false; }
            if (DL.fail_mask >> k) & 1 == 1 {
                r.error("cannot write");
                return Err(());
            }
            Ok(())
        }
    }
}

modelled! {
    #[kani::unwind(2)]
    #[kani::stub(customasm::asm::assemble, st_assemble)]
    #[kani::stub(crate::driver::format_output, st_format_output)]
    fn c03_b_driver_envelope() {
        reset_report_model();
        let mut report = diagn::Report::new();
        let mut fs = NdFs;
        let asm_error: bool = kani::any();
        let fail_mask: u8 = kani::any();
        kani::assume(fail_mask < 8);
        unsafe { DL.asm_error = asm_error; DL.fail_mask = fail_mask; DL.writes = 0; DL.formats = 0; }
        let n: usize = kani::any();
        kani::assume(n <= 3);
        let mut groups = Vec::new();
        let mut file_groups = 0usize;
        let mut first_failing: Option<usize> = None;
        let mut i = 0;
        while i < 3 {
            if i < n {
                let has_format: bool = kani::any();
                let has_file: bool = kani::any();
                if has_format && has_file {
                    if first_failing.is_none() && (fail_mask >> file_groups) & 1 == 1 { first_failing = Some(file_groups); }
                    file_groups += 1;
                }
                groups.push((if has_format { Some(crate::driver::OutputFormat::Binary) } else { None }, false, if has_file { Some(String::from("f")) } else { None }));
            }
            i += 1;
        }
        let r = crate::driver::verif_run_groups(&mut report, &mut fs, asm::AssemblyOptions::new(), vec![String::from("a")], groups, true);
        let writes = unsafe { DL.writes };
        if asm_error {
            assert!(r.is_err(), "failed assembly reported as success by the driver");
            assert!(writes == 0, "output written although assembly failed");
        } else {
            match first_failing {
                None => {
                    assert!(r.is_ok(), "driver failed although assembly and every write succeeded");
                    assert!(writes == file_groups, "not exactly one write per output group with a file");
                    assert!(msgs(&report) == 0, "success with a diagnostic");
                }
                Some(k) => {
                    assert!(r.is_err(), "unwritable output reported as success");
                    assert!(errs(&report) > 0);
                    assert!(writes == k + 1, "driver kept writing after a failed write");
                }
            }
        }
        kani::cover!(!asm_error && file_groups == 3 && first_failing == Some(0), "first of three outputs unwritable");
        kani::cover!(!asm_error && file_groups == 2 && first_failing.is_none(), "two outputs written");
        kani::cover!(asm_error && n == 3, "assembly failed with three output groups");
        std::mem::forget(r); std::mem::forget(report);
    }
}


// ---------------------------------------------------------------- C03-c: the resolver loop's own contract
modelled! {
    #[kani::unwind(10)]
    #[kani::stub(customasm::asm::resolver::resolve_once, crate::c02::resolve_once_nd)]
    fn c03_c_iter_loop_contract() {
        // Ok(n) => the last pass was a Resolved no-guess pass and nothing was recorded; see c02::iter_protocol
        crate::c02::iter_protocol(6)
    }
}

// ---------------------------------------------------------------- C03-d tokenizer on one arbitrary character
#[kani::proof]
#[kani::unwind(2)]
fn c03_d_token_one_char() {
    // any single Unicode scalar value: the token has length >= 1, <= the text, and ends on a char boundary
    let ss = crate::sym::SymStr::<1>::any();
    kani::assume(ss.n == 1);
    let s = ss.as_str();
    let (_kind, len) = syntax::decide_next_token(s);
    assert!(len >= 1, "empty token: the tokenizer would not advance");
    assert!(len <= s.len(), "token longer than the text");
    assert!(s.is_char_boundary(len), "token ends inside a character: slicing the source panics");
    kani::cover!(s.len() == 4, "four-byte character");
    kani::cover!(s.len() == 1 && len == 1, "ASCII character");
}
